------------------------------- MODULE Sticky -------------------------------
(***************************************************************************)
(* Sticky sessions (stickysessions.go, stickycookie/*.go): the cookie is   *)
(* the state, held by the client.                                          *)
(*   cookie = [kind, for, at, by, var]                                     *)
(*     kind : "none" | "issued" | "trunc" | "flip" | "reenc" | "otherkey"  *)
(*            | "garbage"                                                  *)
(*     for  : server key it was minted for      at : mint time             *)
(*     by   : the simple codec that minted it ("raw","hash","aes","aesttl")*)
(*     var  : URL class of the server ("plain","userq","user","query",     *)
(*            "pipeq") - matters only for the as-found codecs              *)
(* A codec is a simple codec or a fallback chain <<from, to>>.             *)
(***************************************************************************)
EXTENDS Integers, Sequences, FiniteSets, TLC

Simple == {"raw", "hash", "aes", "aesttl"}
Ttl == 60

(* which server a simple codec resolves the cookie to ("" = none).                                   *)
(* AsIsHash: minted over the full URL, looked up over the normalised one -> only plain URLs match.   *)
(* AsIsSplit: the TTL suffix is split at the first '|' -> URLs containing '|' never match.            *)
Decode(c, codec, now, AsIsHash, AsIsSplit) ==
  IF c.kind # "issued" \/ c.by # codec THEN ""
  ELSE CASE codec = "raw" -> c.for
         [] codec = "hash" -> IF AsIsHash /\ c.var \in {"userq", "user", "query", "pipeq"} THEN "" ELSE c.for
         [] codec = "aes" -> c.for
         [] codec = "aesttl" -> IF now > c.at + Ttl THEN ""
                                ELSE IF AsIsSplit /\ c.var = "pipeq" THEN "" ELSE c.for

(* a codec configuration is a tuple: <<simple>> or the fallback chain <<from, to>> *)
IsChain(codec) == Len(codec) = 2
MintBy(codec) == codec[Len(codec)]

(* FindURL: a chain asks "from" first and falls through to "to" when from finds no member *)
Lookup(c, codec, pool, now, AsIsHash, AsIsSplit) ==
  LET hit(x) == LET s == Decode(c, x, now, AsIsHash, AsIsSplit) IN IF s \in pool THEN s ELSE ""
  IN IF IsChain(codec) THEN (IF hit(codec[1]) # "" THEN hit(codec[1]) ELSE hit(codec[2])) ELSE hit(codec[1])

(* contract: is the cookie one that this configuration issued for `for`, untampered and unexpired? *)
ValidFor(c, codec, now) ==
  /\ c.kind = "issued"
  /\ c.by \in {codec[i] : i \in 1..Len(codec)}
  /\ (c.by = "aesttl" => now <= c.at + Ttl)
=============================================================================
