----------------------------- MODULE Trace_Rate -----------------------------
(***************************************************************************)
(* Trace specification for the token limiter.                              *)
(*  contract (bad):  C03 admission potential, C13 free rejections /        *)
(*                   sufficient wait / idle refill / oversize, C14 equality*)
(*                   with the solo run of the same source                  *)
(*  impl (drift):    RateLimiter.tla predicts decision and delay           *)
(***************************************************************************)
EXTENDS RateLimiter, TraceBase

VARIABLES l, scn, cfg, now, tracked, pot, potT, seen, tied, bad, drift, nev
vars == <<l, scn, cfg, now, tracked, pot, potT, seen, tied, bad, drift, nev>>

Ev == Log[l]
IsEvent(e) == l <= Len(Log) /\ Log[l].e = e /\ l' = l + 1
NoFn == <<>>
GetOr(f, s, d) == IF s \in DOMAIN f THEN f[s] ELSE d
PutF(f, s, v) == [x \in DOMAIN f \cup {s} |-> IF x = s THEN v ELSE f[x]]

Init == /\ l = 1 /\ scn = "" /\ cfg = [rates |-> <<>>, tps |-> 1, cap |-> 1, level |-> "http", qualified |-> TRUE, approx |-> FALSE]
        /\ now = 0 /\ tracked = NoFn /\ pot = NoFn /\ potT = NoFn /\ seen = NoFn /\ tied = FALSE
        /\ bad = <<>> /\ drift = <<>> /\ nev = 0

Reset == /\ IsEvent("Reset")
         /\ scn' = Ev.scn /\ cfg' = Ev.cfg
         /\ now' = 0 /\ tracked' = NoFn /\ pot' = NoFn /\ potT' = NoFn /\ seen' = NoFn /\ tied' = FALSE
         /\ UNCHANGED <<bad, drift>> /\ nev' = nev + 1

Adv == /\ IsEvent("Adv")
       /\ now' = now + Ev.d
       /\ bad' = ReportAll(bad, scn, l, << <<Ev.t = now + Ev.d, "TRACE.ClockConsistent">> >>)
       /\ UNCHANGED <<scn, cfg, tracked, pot, potT, seen, tied, drift>> /\ nev' = nev + 1

Rates == cfg.rates
NR == Len(Rates)
MinBurst == LET RECURSIVE M(_) M(i) == IF i = 1 THEN Rates[1].b ELSE Min(Rates[i].b, M(i - 1)) IN M(NR)
ZeroPot == [i \in 1..NR |-> 0]

Req ==
  /\ IsEvent("Req")
  /\ LET s == Ev.src  n == Ev.n
         p0 == GetOr(pot, s, ZeroPot)
         d == now - GetOr(potT, s, 0)
         p1 == [i \in 1..NR |-> PotAfter(p0[i], Rates[i], d, n)]
         sameInstant == GetOr(seen, s, -1) = now
         victim == IF NeedsVictim(tracked, cfg.cap, cfg.tps, now, s)
                     THEN CHOOSE v \in VictimsFor(tracked, cfg.tps, now, s) : TRUE ELSE s
         m == ConsumeRates(tracked, Rates, cfg.cap, cfg.tps, now, s, n, victim, TRUE, FALSE)
         tie == NeedsVictim(tracked, cfg.cap, cfg.tps, now, s) /\ Cardinality(VictimsFor(tracked, cfg.tps, now, s)) > 1
     IN
     /\ bad' = ReportAll(bad, scn, l, <<
          <<(cfg.qualified /\ Ev.out = "ok") => \A i \in 1..NR : p1[i] <= PotBound(Rates[i]), "C03.AdmissionBound">>,
          <<Ev.solo # "" => Ev.out = Ev.solo, "C14.SameAsSolo">>,
          <<Ev.nofl # "" => Ev.out = Ev.nofl, "C13.RejectionFree">>,
          <<(cfg.level = "set" /\ Ev.out # "ok") =>
               \A i \in 1..NR : Ev.after[i] >= Ev.before[i] /\ (sameInstant => Ev.after[i] = Ev.before[i]),
            "C13.RejectionFree">>,
          <<(cfg.level = "set" /\ Ev.out = "ok") =>
               \A i \in 1..NR : sameInstant => Ev.after[i] = Ev.before[i] - n, "C03.AdmissionDebitsEveryRate">>,
          <<Ev.isretry => Ev.out = "ok", "C13.AdvertisedWaitSufficient">>,
          <<Ev.isidle => Ev.out = "ok", "C13.IdleRegainsBurst">>,
          <<(n > MinBurst) <=> (Ev.out = "error"), "C13.OversizeRefusedOutright">>,
          <<Ev.out = "error" => Ev.delay = -1 /\ Ev.status # 429, "C13.OversizeRefusedOutright">>,
          <<Ev.out = "limit" => Ev.delay > 0, "C13.RejectionAdvertisesWait">>,
          <<Ev.t = now, "TRACE.ClockConsistent">> >>)
     /\ pot' = IF Ev.out = "ok" THEN PutF(pot, s, p1) ELSE pot
     /\ potT' = IF Ev.out = "ok" THEN PutF(potT, s, now) ELSE potT
     /\ seen' = PutF(seen, s, now)
     /\ tracked' = m.tracked
     /\ tied' = (tied \/ tie)        \* several entries equally near to expiry: the model cannot know which one the heap gives up
     /\ drift' = IF cfg.level = "http" /\ ~tied /\ ~tie /\ ~cfg.approx /\ (m.out # Ev.out \/ (m.out = "limit" /\ m.delay # Ev.delay))
                   THEN Report(drift, scn, l, "tl.consumeRates") ELSE drift
  /\ UNCHANGED <<scn, cfg, now>> /\ nev' = nev + 1

(* hook events of the concurrent driver (frozen clock): every admitted amount of a source is counted *)
End == /\ IsEvent("End")
       /\ JsonSerialize("result.json", [bad |-> bad, drift |-> drift, events |-> nev, lines |-> l])
       /\ UNCHANGED <<scn, cfg, now, tracked, pot, potT, seen, tied, bad, drift, nev>>

Next == Reset \/ Adv \/ Req \/ End
Spec == Init /\ [][Next]_vars
=============================================================================
