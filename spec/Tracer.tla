------------------------------- MODULE Tracer -------------------------------
(***************************************************************************)
(* trace.Tracer (trace/trace.go): after the wrapped handler has returned,  *)
(* exactly one JSON record describing the exchange is written.             *)
(*                                                                         *)
(* An exchange is                                                          *)
(*   [method, url, reqHdr, reqCL, tls, sni,                                *)
(*    status (0 = the handler never called WriteHeader), respHdr, respCL,  *)
(*    lat (milliseconds the handler took on the library's clock)]          *)
(* header maps are functions  name (as stored: canonical) -> sequence of   *)
(* values;  reqCL / respCL = [ok, n]: whether Content-Length parses as an  *)
(* integer, and its value.  The configuration is the two sequences of header names to     *)
(* capture (duplicates allowed, matched verbatim against stored names).    *)
(***************************************************************************)
EXTENDS Integers, Sequences, FiniteSets

(* captureHeaders, as the code does it: the configured names are looked up VERBATIM in the header map, in order; a name   *)
(* whose (verbatim) entry in the output is already filled is skipped; the values are added under the CANONICAL spelling of *)
(* the name.  Consequences the model keeps: a non-canonical name configured twice is captured twice, and two spellings of  *)
(* one header end up under one key.  canon : name -> canonical spelling (supplied with the configuration).                *)
Has(f, k) == k \in DOMAIN f
PutV(f, k, v) == [x \in DOMAIN f \cup {k} |-> IF x = k THEN (IF Has(f, k) THEN f[k] ELSE <<>>) \o v ELSE f[x]]
RECURSIVE CaptureFrom(_, _, _, _, _)
CaptureFrom(hdr, names, canon, i, acc) ==
  IF i > Len(names) THEN acc
  ELSE LET h == names[i] IN
       IF ~Has(hdr, h) \/ (Has(acc, h) /\ acc[h] # <<>>) \/ hdr[h] = <<>> THEN CaptureFrom(hdr, names, canon, i + 1, acc)
       ELSE CaptureFrom(hdr, names, canon, i + 1, PutV(acc, canon[h], hdr[h]))
Capture(hdr, names, canon) == CaptureFrom(hdr, names, canon, 1, <<>>)
(* declared length: the Content-Length value when it parses as an integer (whatever its sign), otherwise 0 *)
Bytes(cl) == IF cl.ok THEN cl.n ELSE 0

Record(x, reqNames, respNames, canon) ==
  [method |-> x.method, url |-> x.url, reqBytes |-> Bytes(x.reqCL), reqHeaders |-> Capture(x.reqHdr, reqNames, canon),
   tls |-> x.tls, sni |-> IF x.tls THEN x.sni ELSE "",
   code |-> IF x.status = 0 THEN 200 ELSE x.status, respBytes |-> Bytes(x.respCL),
   respHeaders |-> Capture(x.respHdr, respNames, canon), roundtrip |-> x.lat]
=============================================================================
