----------------------------- MODULE MC_Counter -----------------------------
EXTENDS RollingCounter
CONSTANTS Ns, Rs, Tps, Offs, U0, AsIs, Incs, Advances, MaxOps, Horizon
VARIABLES c, now, vals, last, log, nops
vars == <<c, now, vals, last, log, nops>>

Init == /\ c \in [n : Ns, r : Rs, tps : {Tps}, off : Offs, u0 : {U0}, asis : {AsIs}]
        /\ c.off < c.r
        /\ now = 0 /\ vals = Zeros(c.n) /\ last = Never /\ log = <<>> /\ nops = 0

Inc(v) == /\ nops < MaxOps
          /\ vals' = IncVals(vals, last, now, v, c) /\ last' = now
          /\ log' = Append(Prune(log, now, c), [t |-> now, v |-> v])
          /\ nops' = nops + 1 /\ UNCHANGED <<c, now>>
Read == /\ nops < MaxOps
        /\ vals' = Cleanup(vals, last, now, c)
        /\ nops' = nops + 1 /\ UNCHANGED <<c, now, last, log>>
Advance(d) == /\ now + d <= Horizon /\ now' = now + d /\ UNCHANGED <<c, vals, last, log, nops>>
ResetC == /\ nops < MaxOps /\ vals' = Zeros(c.n) /\ last' = Never /\ log' = <<>>
          /\ nops' = nops + 1 /\ UNCHANGED <<c, now>>

Next == (\E v \in Incs : Inc(v)) \/ Read \/ ResetC \/ (\E d \in Advances : Advance(d))
Spec == Init /\ [][Next]_vars

WindowBand == InBand(CountOf(vals, last, now, c), log, now, c)
=============================================================================
