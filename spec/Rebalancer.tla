----------------------------- MODULE Rebalancer -----------------------------
(***************************************************************************)
(* roundrobin.Rebalancer (rebalancer.go) with the anomaly split it uses    *)
(* (memmetrics/anomaly.go).  Ratings are in quarters (0..4 = 0, 1/4 .. 1), *)
(* exact in float64, so the split is integer arithmetic:                   *)
(*    v is an outlier  <=>  v > (median + MAD) * 1.5  <=> 2v > 3(med+mad)  *)
(* over the ratings plus a 0 sentinel when their number is even (the list  *)
(* is then always of odd length and both medians are elements).            *)
(*                                                                         *)
(* Critical sections (Rebalancer.mtx): upsert / remove (+ reset) and       *)
(* adjustWeights after every request.                                      *)
(*   srv  : sequence of [k, orig, cur]      (shadow records)               *)
(*   timer: time before which no adjustment is made                        *)
(***************************************************************************)
EXTENDS Integers, Sequences, FiniteSets, TLC

GrowFactor == 4

RECURSIVE GoGcd(_, _)
GoGcd(a, b) == IF b = 0 THEN a ELSE GoGcd(b, a % b)

(* k-th smallest element of a sequence of integers *)
SortedNth(s, n) ==
  CHOOSE x \in {s[i] : i \in 1..Len(s)} :
     /\ Cardinality({i \in 1..Len(s) : s[i] < x}) < n
     /\ Cardinality({i \in 1..Len(s) : s[i] <= x}) >= n
MedianOdd(s) == SortedNth(s, (Len(s) + 1) \div 2)
Abs(x) == IF x < 0 THEN -x ELSE x

(* SplitFloat64(1.5, 0, values): set of outlier VALUES (servers with equal ratings share the verdict) *)
BadValues(vals) ==
  LET nv == IF Len(vals) % 2 = 0 THEN Append(vals, 0) ELSE vals
      m == MedianOdd(nv)
      mad == MedianOdd([i \in 1..Len(nv) |-> Abs(nv[i] - m)])
  IN {vals[i] : i \in {j \in 1..Len(vals) : 2 * vals[j] > 3 * (m + mad)}}
NonTrivial(vals) == LET bv == BadValues(vals) IN bv # {} /\ \E i \in 1..Len(vals) : vals[i] \notin bv

SeqGcd(ws) == LET RECURSIVE G(_, _) G(i, d) == IF i > Len(ws) THEN d ELSE G(i + 1, IF d = -1 THEN ws[i] ELSE GoGcd(d, ws[i])) IN G(1, -1)
Normalize(ws) == LET g == SeqGcd(ws) IN IF g <= 1 THEN ws ELSE [i \in 1..Len(ws) |-> ws[i] \div g]

(* adjustWeights: ratings / ready are sequences aligned with srv.  NoCapCheck, NoNormalize, ConvergeBelow are mutants. *)
Adjust(srv, timer, now, backoff, cap, ratings, ready, NoCapCheck) ==
  IF Len(srv) < 2 \/ (\E i \in 1..Len(srv) : ~ready[i]) \/ ~(timer < now)
    THEN [srv |-> srv, timer |-> timer, changed |-> FALSE]
  ELSE
    LET bv == BadValues(ratings)
        marked == NonTrivial(ratings)
        curs == [i \in 1..Len(srv) |-> srv[i].cur]
    IN IF marked
         THEN LET grown == [i \in 1..Len(srv) |->
                              IF ratings[i] \notin bv /\ (NoCapCheck \/ curs[i] * GrowFactor <= cap)
                                THEN curs[i] * GrowFactor ELSE curs[i]]
                  changed == \E i \in 1..Len(srv) : ratings[i] \notin bv /\ (NoCapCheck \/ curs[i] * GrowFactor <= cap)
                  nw == Normalize(grown)
              IN IF changed THEN [srv |-> [i \in 1..Len(srv) |-> [srv[i] EXCEPT !.cur = nw[i]]], timer |-> now + backoff, changed |-> TRUE]
                 ELSE [srv |-> srv, timer |-> timer, changed |-> FALSE]
         ELSE LET conv == [i \in 1..Len(srv) |->
                             IF srv[i].orig = curs[i] THEN curs[i]
                             ELSE (IF curs[i] \div GrowFactor < srv[i].orig THEN srv[i].orig ELSE curs[i] \div GrowFactor)]
                  changed == \E i \in 1..Len(srv) : srv[i].orig # curs[i]
                  nw == Normalize(conv)
              IN IF changed THEN [srv |-> [i \in 1..Len(srv) |-> [srv[i] EXCEPT !.cur = nw[i]]], timer |-> now + backoff, changed |-> TRUE]
                 ELSE [srv |-> srv, timer |-> timer, changed |-> FALSE]

FindSrv(srv, k) == LET S == {i \in 1..Len(srv) : srv[i].k = k} IN IF S = {} THEN 0 ELSE CHOOSE i \in S : TRUE
ResetSrv(srv) == [i \in 1..Len(srv) |-> [srv[i] EXCEPT !.cur = srv[i].orig]]
UpsertSrv(srv, k, w) ==
  LET i == FindSrv(srv, k) IN
  ResetSrv(IF i # 0 THEN [srv EXCEPT ![i].orig = w] ELSE Append(srv, [k |-> k, orig |-> w, cur |-> w]))
RemoveSrv(srv, k) ==
  LET i == FindSrv(srv, k) IN ResetSrv(SubSeq(srv, 1, i - 1) \o SubSeq(srv, i + 1, Len(srv)))

(* ------------------------------ contract (C10) ------------------------------ *)
(* ghost gh = [orig, w, lastAdj, conv, out, lastReq];  orig / w : functions key -> weight           *)
NoTime == -1000000
SumF(f) == LET RECURSIVE S(_) S(D) == IF D = {} THEN 0 ELSE LET x == CHOOSE y \in D : TRUE IN f[x] + S(D \ {x}) IN S(DOMAIN f)
Proportional(w, o) == \A i, j \in DOMAIN w : w[i] * o[j] = w[j] * o[i]
Ghost0 == [orig |-> <<>>, w |-> <<>>, lastAdj |-> NoTime, conv |-> 0, out |-> <<>>, lastReq |-> NoTime]

(* after an administration call: everything back to the configured weights *)
GhostAdmin(gh, orig2, w2) ==
  [ghost |-> [orig |-> orig2, w |-> w2, lastAdj |-> NoTime, conv |-> 0, out |-> <<>>, lastReq |-> gh.lastReq],
   viol |-> IF w2 = orig2 THEN {} ELSE {"C10.AdminRestoresConfigured"}]

(* after a request at time t; rt / rd : key -> rating(quarters) / ready ; w2 : key -> effective weight now *)
GhostReq(gh, t, rt, rd, w2, backoff, cap) ==
  LET keys == DOMAIN gh.orig
      ks == CHOOSE s \in [1..Cardinality(keys) -> keys] : \A i, j \in 1..Cardinality(keys) : i # j => s[i] # s[j]
      vals == [i \in 1..Cardinality(keys) |-> rt[ks[i]]]
      allReady == \A k \in keys : rd[k]
      bv == IF Cardinality(keys) >= 1 THEN BadValues(vals) ELSE {}
      nontriv == Cardinality(keys) >= 2 /\ NonTrivial(vals)
      adj == w2 # gh.w
      S1 == SumF(gh.w)  S2 == SumF(w2)
      frequent == gh.lastReq # NoTime /\ 2 * (t - gh.lastReq) <= backoff
      (* outlier streaks: key -> [since, num, den] kept while k stays the only outlier, all ready, requests frequent *)
      single(k) == nontriv /\ allReady /\ rt[k] \in bv /\ \A x \in keys \ {k} : rt[x] \notin bv
      out2 == [k \in {x \in keys : single(x)} |->
                 IF k \in DOMAIN gh.out /\ frequent THEN gh.out[k] ELSE [since |-> t, num |-> gh.w[k], den |-> S1]]
      othersCapped(k) == \A x \in keys \ {k} : GrowFactor * gh.w[x] > cap \/ GrowFactor * w2[x] > cap
      (* an adjustment is due at a request when all meters are ready and more than a back-off interval has passed *)
      (* since the weights last changed; while ratings do not differ each one that is due counts, whether or not  *)
      (* the weights moved - a rebalancer that stops short of the configured proportions does not "return"        *)
      due == allReady /\ Cardinality(keys) >= 2 /\ (gh.lastAdj = NoTime \/ t - gh.lastAdj > backoff)
      conv2 == IF nontriv THEN 0 ELSE IF adj \/ due THEN gh.conv + 1 ELSE gh.conv
      viol ==
        {c \in {"C10.WeightWithinBounds", "C10.OncePerBackoff", "C10.OutlierShareNeverGrows", "C10.OutlierLosesShare",
                "C10.ConvergesWithinSix", "C10.NoAdjustmentUnlessReady"} :
           CASE c = "C10.WeightWithinBounds" ->
                  \E k \in keys : gh.orig[k] > 0 /\ ~(1 <= w2[k] /\ w2[k] <= (IF cap > gh.orig[k] THEN cap ELSE gh.orig[k]))
             [] c = "C10.OncePerBackoff" -> adj /\ gh.lastAdj # NoTime /\ t - gh.lastAdj < backoff
             [] c = "C10.OutlierShareNeverGrows" ->
                  adj /\ nontriv /\ \E k \in keys : rt[k] \in bv /\ w2[k] * S1 > gh.w[k] * S2
             [] c = "C10.OutlierLosesShare" ->
                  \E k \in DOMAIN out2 : t - out2[k].since >= 2 * backoff /\ ~othersCapped(k)
                                         /\ ~(w2[k] * out2[k].den < out2[k].num * S2)
             [] c = "C10.ConvergesWithinSix" -> ~nontriv /\ conv2 >= 6 /\ ~Proportional(w2, gh.orig)
             [] c = "C10.NoAdjustmentUnlessReady" -> adj /\ ~allReady}
  IN [ghost |-> [orig |-> gh.orig, w |-> w2, lastAdj |-> IF adj THEN t ELSE gh.lastAdj, conv |-> conv2,
                 out |-> out2, lastReq |-> t],
      viol |-> viol]
=============================================================================
