------------------------------- MODULE Stack -------------------------------
(***************************************************************************)
(* Compositions of oxy middlewares (C20).  A stack is a sequence of layers *)
(* (outermost first), each [name, mode] with mode "pass" or "intervene";   *)
(* the wrapped handler follows a script [status, flush, hijack].           *)
(* Per layer the model records what the Go code does with the response     *)
(* writer it hands downstream:                                             *)
(*   stream, connlimit, ratelimit, roundrobin : the writer itself          *)
(*   trace, cbreaker, rebalancer : utils.ProxyWriter (Flush, Hijack pass)  *)
(*   buffer : bufferWriter (Hijack passes, no Flush - buffers by design)   *)
(* and the documented status with which it intervenes.                     *)
(***************************************************************************)
EXTENDS Integers, Sequences, FiniteSets, TLC

Names == {"stream", "trace", "connlimit", "ratelimit", "cbreaker", "roundrobin", "rebalancer", "buffer"}
InterveneStatus(n) ==
  CASE n = "connlimit" -> 429 [] n = "ratelimit" -> 429 [] n = "cbreaker" -> 503
    [] n = "roundrobin" -> 500 [] n = "rebalancer" -> 500 [] n = "buffer" -> 413 [] OTHER -> 0
CanIntervene(n) == InterveneStatus(n) # 0
PassesFlush(n, Broken) == n # "buffer" /\ n # Broken        \* Broken: a mutant layer that drops Flush/Hijack
PassesHijack(n, Broken) == n # Broken

FirstIntervening(stack) ==
  LET S == {i \in 1..Len(stack) : stack[i].mode = "intervene"} IN
  IF S = {} THEN 0 ELSE CHOOSE i \in S : \A j \in S : i <= j

(* implementation fold *)
Outcome(stack, script, Broken) ==
  LET i == FirstIntervening(stack) IN
  IF i # 0 THEN [invoked |-> 0, status |-> InterveneStatus(stack[i].name), flushAvail |-> FALSE, hijackAvail |-> FALSE, relayed |-> FALSE]
  ELSE [invoked |-> 1, status |-> IF script.status = 0 THEN 200 ELSE script.status,
        flushAvail |-> \A k \in 1..Len(stack) : PassesFlush(stack[k].name, Broken),
        hijackAvail |-> \A k \in 1..Len(stack) : PassesHijack(stack[k].name, Broken), relayed |-> TRUE]

(* contract *)
HasBuffer(stack) == \E k \in 1..Len(stack) : stack[k].name = "buffer"
ContractOK(stack, script, o) ==
  LET i == FirstIntervening(stack) IN
  IF i # 0 THEN o.invoked = 0 /\ o.status = InterveneStatus(stack[i].name)
  ELSE /\ o.invoked = 1 /\ o.relayed
       /\ o.status = (IF script.status = 0 THEN 200 ELSE script.status)
       /\ (~HasBuffer(stack) => o.flushAvail)
       /\ o.hijackAvail
=============================================================================
