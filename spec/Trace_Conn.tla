----------------------------- MODULE Trace_Conn -----------------------------
(* Trace specification for connlimit: sequential gate-driven interleavings   *)
(* (Start/Finish) and hook-ordered concurrent histories (CAcquire/...).      *)
EXTENDS TraceBase, FiniteSets

VARIABLES l, scn, max, inflight, bad, drift, nev
vars == <<l, scn, max, inflight, bad, drift, nev>>

Ev == Log[l]
IsEvent(e) == l <= Len(Log) /\ Log[l].e = e /\ l' = l + 1
Get(f, s) == IF s \in DOMAIN f THEN f[s] ELSE 0
Put(f, s, v) == [x \in DOMAIN f \cup {s} |-> IF x = s THEN v ELSE f[x]]

Init == l = 1 /\ scn = "" /\ max = 1 /\ inflight = <<>> /\ bad = <<>> /\ drift = <<>> /\ nev = 0

Reset == /\ IsEvent("Reset")
         /\ scn' = Ev.scn /\ max' = Ev.cfg.max /\ inflight' = <<>>
         /\ UNCHANGED <<bad, drift>> /\ nev' = nev + 1

(* a request arrived and the limiter decided; running = concurrency measured inside the handler *)
Start ==
  /\ IsEvent("Start")
  /\ LET n == Get(inflight, Ev.src) IN
     /\ bad' = ReportAll(bad, scn, l, <<
           <<Ev.admitted => n < max, "C04.NeverExceedsMax">>,
           <<~Ev.admitted => n >= max, "C04.RejectOnlyAtMax">>,
           <<~Ev.admitted => Ev.status = 429, "C04.RejectStatus429">>,
           <<Ev.running <= max, "C04.MeasuredConcurrencyWithinMax">>,
           <<Ev.running = (IF Ev.admitted THEN n + 1 ELSE n), "C04.MeasuredConcurrencyMatches">> >>)
     /\ inflight' = IF Ev.admitted THEN Put(inflight, Ev.src, n + 1) ELSE inflight
  /\ UNCHANGED <<scn, max, drift>> /\ nev' = nev + 1

Finish ==
  /\ IsEvent("Finish")
  /\ inflight' = Put(inflight, Ev.src, Get(inflight, Ev.src) - 1)
  /\ bad' = ReportAll(bad, scn, l, << <<Ev.returned, "C04.RequestEnds">> >>)
  /\ UNCHANGED <<scn, max, drift>> /\ nev' = nev + 1

(* hook events of the concurrent driver, in the order of the critical sections *)
CAcquire ==
  /\ IsEvent("CAcquire")
  /\ LET n == Get(inflight, Ev.src) IN
     /\ bad' = ReportAll(bad, scn, l, <<
           <<n < max, "C04.NeverExceedsMax">>,
           <<Ev.after = n + 1, "C09.NoLostUpdate">> >>)
     /\ inflight' = Put(inflight, Ev.src, n + 1)
  /\ UNCHANGED <<scn, max, drift>> /\ nev' = nev + 1
CReject ==
  /\ IsEvent("CReject")
  /\ bad' = ReportAll(bad, scn, l, << <<Get(inflight, Ev.src) >= max, "C04.RejectOnlyAtMax">> >>)
  /\ UNCHANGED <<scn, max, inflight, drift>> /\ nev' = nev + 1
CRelease ==
  /\ IsEvent("CRelease")
  /\ LET n == Get(inflight, Ev.src) IN
     /\ bad' = ReportAll(bad, scn, l, << <<Ev.after = n - 1 /\ n >= 1, "C09.NoLostUpdate">> >>)
     /\ inflight' = Put(inflight, Ev.src, n - 1)
  /\ UNCHANGED <<scn, max, drift>> /\ nev' = nev + 1
Quiesce ==       \* all requests ended
  /\ IsEvent("Quiesce")
  /\ bad' = ReportAll(bad, scn, l, <<
        <<\A s \in DOMAIN inflight : inflight[s] = 0, "C04.SlotsReturned">>,
        <<Ev.maxrunning <= max, "C04.MeasuredConcurrencyWithinMax">> >>)
  /\ UNCHANGED <<scn, max, inflight, drift>> /\ nev' = nev + 1

End == /\ IsEvent("End")
       /\ JsonSerialize("result.json", [bad |-> bad, drift |-> drift, events |-> nev, lines |-> l])
       /\ UNCHANGED <<scn, max, inflight, bad, drift, nev>>

Next == Reset \/ Start \/ Finish \/ CAcquire \/ CReject \/ CRelease \/ Quiesce \/ End
Spec == Init /\ [][Next]_vars
=============================================================================
