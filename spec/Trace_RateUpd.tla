--------------------------- MODULE Trace_RateUpd ---------------------------
(***************************************************************************)
(* Trace specification for rate sets that change between requests          *)
(* (extension X01).  Events: Reset (table of named rate sets), Adv, Req     *)
(* (source, amount, name of the effective set, decision, delay, tokens).    *)
(*   impl  : RateUpdate.tla's ConsumeRatesDyn predicts decision, delay,     *)
(*           remaining tokens per period, the set of periods kept           *)
(*   contract : the bound of C03 counted from the last change of a period's *)
(*           rate; oversize refused outright; tokens within the burst       *)
(***************************************************************************)
EXTENDS RateUpdate, TraceBase

VARIABLES l, scn, cfg, now, tracked, gps, bad, drift, nev
vars == <<l, scn, cfg, now, tracked, gps, bad, drift, nev>>

Ev == Log[l]
IsEvent(e) == l <= Len(Log) /\ Log[l].e = e /\ l' = l + 1
NoFn == <<>>
GetOr(f, s, d) == IF s \in DOMAIN f THEN f[s] ELSE d
PutF(f, s, v) == [x \in DOMAIN f \cup {s} |-> IF x = s THEN v ELSE f[x]]

Init == /\ l = 1 /\ scn = "" /\ cfg = [tps |-> 1, cap |-> 1, level |-> "http"]
        /\ now = 0 /\ tracked = NoFn /\ gps = NoFn /\ bad = <<>> /\ drift = <<>> /\ nev = 0

Reset == /\ IsEvent("Reset")
         /\ scn' = Ev.scn /\ cfg' = Ev.cfg /\ now' = 0 /\ tracked' = NoFn /\ gps' = NoFn
         /\ UNCHANGED <<bad, drift>> /\ nev' = nev + 1

Adv == /\ IsEvent("Adv")
       /\ now' = now + Ev.d
       /\ bad' = ReportAll(bad, scn, l, << <<Ev.t = now + Ev.d, "TRACE.ClockConsistent">> >>)
       /\ UNCHANGED <<scn, cfg, tracked, gps, drift>> /\ nev' = nev + 1

MinBurstOf(rates) == LET RECURSIVE M(_) M(i) == IF i = 1 THEN rates[1].b ELSE Min(rates[i].b, M(i - 1)) IN M(Len(rates))

Req ==
  /\ IsEvent("Req")
  /\ LET s == Ev.src  n == Ev.n
         rates == cfg.ratesets[Ev.rs]
         (* at TokenBucketSet level there is no TTL map: the single set lives for the whole scenario *)
         tr0 == IF cfg.level = "set" /\ s \in DOMAIN tracked
                  THEN [tracked EXCEPT ![s].exp = now \div cfg.tps + 1] ELSE tracked
         m == ConsumeRatesDyn(tr0, rates, cfg.cap, cfg.tps, now, s, n, s, FALSE)
         g0 == IF m.fresh THEN NoFn ELSE GetOr(gps, s, NoFn)
         g1 == GhostStep(g0, rates, now, n, Ev.out = "ok")
         mb == m.tracked[s].bks
     IN
     /\ bad' = ReportAll(bad, scn, l, <<
          <<GhostOK(g1, rates), "X01.BoundSinceRateChange">>,
          <<(n > MinBurstOf(rates)) <=> (Ev.out = "error"), "X01.OversizeRefusedOutright">>,
          <<Ev.out = "limit" => Ev.delay > 0, "X01.RejectionAdvertisesWait">>,
          <<cfg.level = "set" => (Len(Ev.after) = Len(rates) /\ \A i \in 1..Len(rates) : Ev.after[i] >= 0 /\ Ev.after[i] <= rates[i].b),
            "X01.TokensWithinBurst">>,
          <<cfg.level = "set" => Ev.periods = Periods(rates), "X01.PeriodsFollowTheSet">>,
          <<cfg.level = "set" => Ev.maxperiod = MaxPeriod(rates), "X01.LifetimeFollowsTheSet">>,
          <<Ev.t = now, "TRACE.ClockConsistent">> >>)
     /\ gps' = PutF(gps, s, g1)
     /\ tracked' = m.tracked
     /\ drift' = IF m.out # Ev.out \/ (m.out = "limit" /\ (m.delay # Ev.delay \/ ~Ev.whole))
                    \/ (cfg.level = "set" /\ Len(Ev.after) = Len(rates) /\ \E i \in 1..Len(rates) : Ev.after[i] # mb[i].avail)
                   THEN Report(drift, scn, l, "tl.consumeRates+Update") ELSE drift
  /\ UNCHANGED <<scn, cfg, now>> /\ nev' = nev + 1

End == /\ IsEvent("End")
       /\ JsonSerialize("result.json", [bad |-> bad, drift |-> drift, events |-> nev, lines |-> l])
       /\ UNCHANGED <<scn, cfg, now, tracked, gps, bad, drift, nev>>

Next == Reset \/ Adv \/ Req \/ End
Spec == Init /\ [][Next]_vars
=============================================================================
