---------------------------- MODULE Trace_Tracer ----------------------------
(* Trace specification for trace.Tracer (extension X03): one "Exch" event per request with the exchange as driven and the *)
(* records the tracer wrote for it (parsed back from its output).                                                         *)
EXTENDS Tracer, TraceBase

VARIABLES l, scn, cfg, bad, drift, nev
vars == <<l, scn, cfg, bad, drift, nev>>
Ev == Log[l]
IsEvent(e) == l <= Len(Log) /\ Log[l].e = e /\ l' = l + 1
Init == l = 1 /\ scn = "" /\ cfg = [req |-> <<>>, resp |-> <<>>, canon |-> <<>>] /\ bad = <<>> /\ drift = <<>> /\ nev = 0
Reset == /\ IsEvent("Reset") /\ scn' = Ev.scn /\ cfg' = Ev.cfg /\ UNCHANGED <<bad, drift>> /\ nev' = nev + 1

Exch ==
  /\ IsEvent("Exch")
  /\ LET want == Record(Ev.x, cfg.req, cfg.resp, cfg.canon)
         one == Len(Ev.records) = 1
         got == Ev.records[1]
     IN bad' = ReportAll(bad, scn, l, <<
          <<Ev.panicked \/ one, "X03.OneRecordPerRequest">>,
          <<Ev.panicked => Len(Ev.records) = 0, "X03.NoRecordForAbortedHandler">>,
          <<one => (got.method = want.method /\ got.url = want.url), "X03.RequestLineRecorded">>,
          <<one => got.reqBytes = want.reqBytes, "X03.RequestBodyBytesFromDeclaredLength">>,
          <<one => got.reqHeaders = want.reqHeaders, "X03.RequestHeadersCapturedAsConfigured">>,
          <<one => got.code = want.code, "X03.StatusRecorded">>,
          <<one => got.respBytes = want.respBytes, "X03.ResponseBodyBytesFromDeclaredLength">>,
          <<one => got.respHeaders = want.respHeaders, "X03.ResponseHeadersCapturedAsConfigured">>,
          <<one => got.roundtrip = want.roundtrip, "X03.RoundtripIsHandlerTime">>,
          <<one => (got.tls = want.tls /\ got.sni = want.sni), "X03.TLSRecordedOnlyForTLS">>,
          <<Ev.relayed, "X03.ExchangeUntouched">> >>)
  /\ UNCHANGED <<scn, cfg, drift>> /\ nev' = nev + 1

End == /\ IsEvent("End")
       /\ JsonSerialize("result.json", [bad |-> bad, drift |-> drift, events |-> nev, lines |-> l])
       /\ UNCHANGED <<scn, cfg, bad, drift, nev>>
Next == Reset \/ Exch \/ End
Spec == Init /\ [][Next]_vars
=============================================================================
