---------------------------- MODULE Trace_Breaker ----------------------------
(***************************************************************************)
(* Trace specification for cbreaker.CircuitBreaker.                        *)
(*  contract (bad): C05 shielding / standby passes / legal transitions,    *)
(*                  C12 recovery ramp, C18 trip iff condition + side       *)
(*                  effects once per transition                            *)
(*  impl (drift):   CircuitBreaker.tla predicts decision, transitions and  *)
(*                  whether the condition was evaluated                    *)
(* Observed transitions come from the cb.state hook (emitted inside the    *)
(* breaker's lock); decisions from the gate handler / fallback handler.    *)
(***************************************************************************)
EXTENDS CircuitBreaker, TraceBase

VARIABLES l, scn, cfg, now, b, resp, g, gresp, gnext, ntrip, nstandby, bad, drift, nev
vars == <<l, scn, cfg, now, b, resp, g, gresp, gnext, ntrip, nstandby, bad, drift, nev>>
Ev == Log[l]
IsEvent(e) == l <= Len(Log) /\ Log[l].e = e /\ l' = l + 1

(* ep counts the state changes; began : request id -> [st, shield, ep] as the ghost stood when the request was handed to the breaker *)
G0 == [state |-> "standby", shield |-> 0, rstart |-> 0, a |-> 0, d |-> 0, ep |-> 0, began |-> <<>>]
Init == /\ l = 1 /\ scn = "" /\ cfg = [tps |-> 1] /\ now = 0 /\ b = InitBreaker /\ resp = <<>>
        /\ g = G0 /\ gresp = <<>> /\ gnext = NoCheck /\ ntrip = 0 /\ nstandby = 0
        /\ bad = <<>> /\ drift = <<>> /\ nev = 0

Reset == /\ IsEvent("Reset")
         /\ scn' = Ev.scn /\ cfg' = Ev.cfg /\ now' = 0 /\ b' = InitBreaker /\ resp' = <<>>
         /\ g' = G0 /\ gresp' = <<>> /\ gnext' = NoCheck /\ ntrip' = 0 /\ nstandby' = 0
         /\ UNCHANGED <<bad, drift>> /\ nev' = nev + 1

Adv == /\ IsEvent("Adv") /\ now' = now + Ev.d
       /\ UNCHANGED <<scn, cfg, b, resp, g, gresp, gnext, ntrip, nstandby, bad, drift>> /\ nev' = nev + 1

RECURSIVE ApplyTrans(_, _, _, _)
ApplyTrans(gs, trans, t, c) ==
  IF trans = <<>> THEN gs
  ELSE LET to == Head(trans)
           g1 == CASE to = "recovering" -> [gs EXCEPT !.state = to, !.rstart = t, !.a = 0, !.d = 0, !.ep = @ + 1]
                   [] to = "standby" -> [gs EXCEPT !.state = to, !.ep = @ + 1]
                   [] to = "tripped" -> [gs EXCEPT !.state = to, !.shield = t + c.fallback, !.ep = @ + 1]
                   [] OTHER -> gs
       IN ApplyTrans(g1, Tail(trans), t, c)
RECURSIVE IllegalTrans(_, _)
IllegalTrans(from, trans) ==
  IF trans = <<>> THEN FALSE
  ELSE ~LegalMove(from, Head(trans)) \/ IllegalTrans(Head(trans), Tail(trans))
CountIn(trans, x) == Cardinality({i \in 1..Len(trans) : trans[i] = x})

Start ==
  /\ IsEvent("Start")
  /\ LET pass == Ev.admitted
         g1 == ApplyTrans(g, Ev.trans, now, cfg)
         el == now - g1.rstart
         D == cfg.recovery
         inRamp == g1.state = "recovering"
         m0 == Admit(b, now, cfg, FALSE)
         m1 == Admit(b, now, cfg, TRUE)
         agree(m) == m.pass = pass /\ m.trans = Ev.trans
     IN
     /\ bad' = ReportAll(bad, scn, l, <<
          <<~(now < g.shield /\ pass), "C05.TrippedShields">>,
          <<~(g.state = "standby" /\ ~pass), "C05.StandbyPasses">>,
          <<~pass => Ev.fallback /\ ~Ev.entered, "C05.FallbackAnswers">>,
          <<pass => ~Ev.fallback, "C05.FallbackAnswers">>,
          <<~pass => Ev.fbok, "C05.FallbackResponseAsConfigured">>,
          <<~IllegalTrans(g.state, Ev.trans), "C05.LegalTransition">>,
          <<~(g.state = "tripped" /\ now >= g.shield /\ (Ev.trans = <<>> \/ Head(Ev.trans) # "recovering")), "C12.RecoveryBegins">>,
          <<~(g.state = "recovering" /\ now > g.rstart + D /\ ~(pass /\ g1.state = "standby")), "C12.StandbyAfterRecovery">>,
          \* the recovery period includes its last instant (the ramp is stated "at every instant of the recovery period"): the
          \* breaker may not declare the period over while elapsed <= duration.  The pinned code agrees (it tests now.After(until)).
          <<~(g.state = "recovering" /\ now <= g.rstart + D /\ CountIn(Ev.trans, "standby") > 0), "C12.RecoveryPeriodIncludesItsLastInstant">>,
          <<~(inRamp /\ pass /\ ~(RampL(g1.a + 1, el, D) <= RampR(g1.a + g1.d + 1, el, D))), "C12.PassWithinRamp">>,
          <<~(inRamp /\ ~pass /\ ~(RampL(g1.a + 1, el, D) >= RampR(g1.a + g1.d + 1, el, D))), "C12.RefuseOnlyAtRamp">> >>)
     /\ g' = IF inRamp THEN (IF pass THEN [g1 EXCEPT !.a = @ + 1] ELSE [g1 EXCEPT !.d = @ + 1]) ELSE g1
     /\ nstandby' = nstandby + CountIn(Ev.trans, "standby")
     /\ ntrip' = ntrip + CountIn(Ev.trans, "tripped")
     /\ b' = IF agree(m1) /\ ~agree(m0) THEN m1.b ELSE m0.b
     /\ drift' = IF agree(m0) \/ agree(m1) THEN drift ELSE Report(drift, scn, l, "cb.activateFallback")
  /\ UNCHANGED <<scn, cfg, now, resp, gresp, gnext>> /\ nev' = nev + 1

(* the histogram keeps two significant digits: a latency predicate is read by the contract only when no   *)
(* recorded latency is within 3% of its threshold                                                         *)
LatencyNear(ast, rs, c) ==
  LET RECURSIVE H(_)
      H(x) == IF x.k \in {"and", "or"} THEN H(x.l) \/ H(x.r)
              ELSE x.k = "latency" /\ \E i \in 1..Len(rs) :
                     LET ms == (rs[i].lat * 1000) \div c.tps
                         df == IF ms > x.ms THEN ms - x.ms ELSE x.ms - ms
                     IN df * 100 <= 3 * x.ms
  IN H(ast)
HasLatency(ast) == LET RECURSIVE H(_) H(x) == IF x.k \in {"and", "or"} THEN H(x.l) \/ H(x.r) ELSE x.k = "latency" IN H(ast)

Finish ==
  /\ IsEvent("Finish")
  /\ LET gr1 == Append(gresp, [t |-> now, code |-> Ev.code, lat |-> Ev.lat])
         due == gnext = NoCheck \/ now > gnext
         tie == gnext # NoCheck /\ now = gnext
         det == ~Ambiguous(gr1, now, cfg) /\
                (HasLatency(cfg.ast) => \A i \in 1..Len(gr1) : now - gr1[i].t < 50 * cfg.tps) /\
                ~LatencyNear(cfg.ast, gr1, cfg)
         cnd == Eval(cfg.ast, gr1, now, cfg, "inner")
         tripped == CountIn(Ev.trans, "tripped") > 0
         m == Complete(b, resp, now, Ev.code, Ev.lat, cfg)
         obsEval == Ev.checked # "none"
     IN
     /\ bad' = ReportAll(bad, scn, l, <<
          <<~IllegalTrans(g.state, Ev.trans), "C05.LegalTransition">>,
          <<~(due /\ g.state # "tripped" /\ det /\ cnd /\ ~tripped), "C18.TripWhenConditionHolds">>,
          <<~(tripped /\ (~(due \/ tie) \/ g.state = "tripped" \/ (det /\ ~cnd))), "C18.NoSpuriousTrip">>,
          \* the fallback period is over: what comes next is the recovery ramp, not a new fallback period started by a late completion
          <<~(tripped /\ g.state = "tripped" /\ now >= g.shield), "C12.RecoveryBegins">> >>)
     /\ g' = ApplyTrans(g, Ev.trans, now, cfg)
     /\ gresp' = IF tripped THEN <<>> ELSE gr1
     /\ gnext' = IF due THEN now + cfg.check ELSE gnext
     /\ ntrip' = ntrip + CountIn(Ev.trans, "tripped")
     /\ nstandby' = nstandby + CountIn(Ev.trans, "standby")
     /\ LET agree == m.trans = Ev.trans /\ (m.evaluated = obsEval)
            f == CompleteForced(b, resp, now, Ev.code, Ev.lat, cfg, tripped) IN
        /\ b' = IF agree THEN m.b ELSE f.b
        /\ resp' = IF agree THEN m.resp ELSE f.resp
        /\ drift' = IF agree \/ LatencyNear(cfg.ast, gr1, cfg) \/
                         (HasLatency(cfg.ast) /\ \E i \in 1..Len(resp) : now - resp[i].t >= 50 * cfg.tps)  \* histogram may have rotated them out
                      THEN drift ELSE Report(drift, scn, l, "cb.checkAndSet")
  /\ UNCHANGED <<scn, cfg, now>> /\ nev' = nev + 1

(* the protected handler aborted (panicked) without answering: there is no completed response - nothing is recorded,   *)
(* the condition is not evaluated, the state does not move                                                           *)
Abort ==
  /\ IsEvent("Abort")
  /\ bad' = ReportAll(bad, scn, l, <<
        <<Ev.trans = <<>>, "C18.NoSpuriousTrip">>,
        <<Ev.checked = "none", "C18.EvaluatedOnlyAtCompletedResponses">> >>)
  /\ g' = ApplyTrans(g, Ev.trans, now, cfg)
  /\ ntrip' = ntrip + CountIn(Ev.trans, "tripped")
  /\ nstandby' = nstandby + CountIn(Ev.trans, "standby")
  /\ UNCHANGED <<scn, cfg, now, b, resp, gresp, gnext, drift>> /\ nev' = nev + 1

(* quiescence: asynchronous side effects have been waited for *)
Effects ==
  /\ IsEvent("Effects")
  /\ bad' = ReportAll(bad, scn, l, <<
        <<Ev.tripped = ntrip, "C18.OnTrippedOncePerTrip">>,
        <<Ev.standby = nstandby, "C18.OnStandbyOncePerRecovery">>,
        <<Ev.hookbad = 0, "C18.WebhookRequestAsConfigured">> >>)
  /\ UNCHANGED <<scn, cfg, now, b, resp, g, gresp, gnext, ntrip, nstandby, drift>> /\ nev' = nev + 1

(* ---- hook-ordered events of the concurrent driver ---- *)
CState ==
  /\ IsEvent("CState")
  /\ bad' = ReportAll(bad, scn, l, << <<LegalMove(g.state, Ev.to), "C05.LegalTransition">> >>)
  /\ g' = ApplyTrans(g, <<Ev.to>>, now, cfg)
  /\ ntrip' = ntrip + (IF Ev.to = "tripped" THEN 1 ELSE 0)
  /\ nstandby' = nstandby + (IF Ev.to = "standby" THEN 1 ELSE 0)
  /\ UNCHANGED <<scn, cfg, now, b, resp, gresp, gnext, drift>> /\ nev' = nev + 1
CAdmit ==       \* decision taken under the breaker's lock (not standby at the quick check)
  /\ IsEvent("CAdmit")
  /\ LET el == now - g.rstart  D == cfg.recovery  inRamp == g.state = "recovering" /\ now <= g.rstart + D IN
     /\ bad' = ReportAll(bad, scn, l, <<
          <<~(now < g.shield /\ Ev.pass), "C05.TrippedShields">>,
          <<~(g.state = "standby" /\ ~Ev.pass), "C05.StandbyPasses">>,
          <<~(inRamp /\ Ev.pass /\ ~(RampL(g.a + 1, el, D) <= RampR(g.a + g.d + 1, el, D))), "C12.PassWithinRamp">>,
          <<~(inRamp /\ ~Ev.pass /\ ~(RampL(g.a + 1, el, D) >= RampR(g.a + g.d + 1, el, D))), "C12.RefuseOnlyAtRamp">> >>)
     /\ g' = IF inRamp THEN (IF Ev.pass THEN [g EXCEPT !.a = @ + 1] ELSE [g EXCEPT !.d = @ + 1]) ELSE g
  /\ UNCHANGED <<scn, cfg, now, b, resp, gresp, gnext, ntrip, nstandby, drift>> /\ nev' = nev + 1
(* goroutine drivers: CBegin is emitted (through the same sequence counter as the hooks) just before a request is handed to   *)
(* the breaker, CEnter when the protected handler is entered.  A request that was handed over while the ghost stood tripped  *)
(* inside its shield, and enters the handler with no state change in between, slipped past the shield - whichever path took it *)
CBegin ==
  /\ IsEvent("CBegin")
  /\ g' = [g EXCEPT !.began = [x \in DOMAIN g.began \cup {Ev.id} |->
                                  IF x = Ev.id THEN [st |-> g.state, shield |-> g.shield, ep |-> g.ep] ELSE g.began[x]]]
  /\ UNCHANGED <<scn, cfg, now, b, resp, gresp, gnext, ntrip, nstandby, bad, drift>> /\ nev' = nev + 1
CEnter ==
  /\ IsEvent("CEnter")
  /\ bad' = ReportAll(bad, scn, l, <<
        <<~(Ev.id \in DOMAIN g.began /\ g.began[Ev.id].st = "tripped" /\ now < g.began[Ev.id].shield /\ g.began[Ev.id].ep = g.ep),
          "C05.TrippedShields">> >>)
  /\ UNCHANGED <<scn, cfg, now, b, resp, g, gresp, gnext, ntrip, nstandby, drift>> /\ nev' = nev + 1

CEffects ==
  /\ IsEvent("CEffects")
  /\ bad' = ReportAll(bad, scn, l, <<
        <<Ev.tripped = ntrip, "C18.OnTrippedOncePerTrip">>,
        <<Ev.standby = nstandby, "C18.OnStandbyOncePerRecovery">> >>)
  /\ UNCHANGED <<scn, cfg, now, b, resp, g, gresp, gnext, ntrip, nstandby, drift>> /\ nev' = nev + 1

End == /\ IsEvent("End")
       /\ JsonSerialize("result.json", [bad |-> bad, drift |-> drift, events |-> nev, lines |-> l])
       /\ UNCHANGED vars
Next == Reset \/ Adv \/ Start \/ Finish \/ Abort \/ Effects \/ CState \/ CAdmit \/ CBegin \/ CEnter \/ CEffects \/ End
Spec == Init /\ [][Next]_vars
=============================================================================
