------------------------------ MODULE Trace_RTM ------------------------------
(* Trace specification for memmetrics.RTMetrics (extension X04).  One "Op" event per step on named collectors, each with *)
(* everything read back from every collector afterwards.                                                                   *)
(*   impl     : RTMetrics.tla predicts total, network errors, per-status counts and latency quantiles of every collector   *)
(*   contract : total = sum over statuses and network errors = 502s + 504s for collectors that never had a status counter *)
(*              cloned in by Append (see MC_RTMetrics.AsFoundAgeSkew); append adds what the source reports; export is a    *)
(*              snapshot; reset empties; the ratio is the quotient of the two counts                                       *)
EXTENDS RTMetrics, TraceBase

VARIABLES l, scn, cfg, now, ms, aged, bad, drift, nev, aux
vars == <<l, scn, cfg, now, ms, aged, bad, drift, nev, aux>>
Ev == Log[l]
IsEvent(e) == l <= Len(Log) /\ Log[l].e = e /\ l' = l + 1
C == [n |-> 10, r |-> cfg.tps, tps |-> cfg.tps, off |-> 0, u0 |-> 0, asis |-> FALSE]
Period == 10 * cfg.tps
ToStr(n) == ToString(n)

Init == /\ l = 1 /\ scn = "" /\ cfg = [tps |-> 1, names |-> <<>>] /\ now = 0 /\ ms = <<>> /\ aged = {}
        /\ bad = <<>> /\ drift = <<>> /\ nev = 0 /\ aux = <<>>
Reset == /\ IsEvent("Reset") /\ scn' = Ev.scn /\ cfg' = Ev.cfg /\ now' = 0
         /\ ms' = [x \in {Ev.cfg.names[i] : i \in 1..Len(Ev.cfg.names)} |-> FreshM(10, 6)] /\ aged' = {}
         /\ UNCHANGED <<bad, drift, aux>> /\ nev' = nev + 1

(* latency quantile in ms as the histogram reports it: two significant digits, compared within 3 % *)
Near(a, b) == LET d == IF a > b THEN a - b ELSE b - a IN d * 100 <= 3 * (IF a > b THEN a ELSE b) \/ d <= 1
GetOr0(f, k) == IF k \in DOMAIN f THEN f[k] ELSE 0
CodesAgree(obs, m, t) ==
  LET cc == CodeCounts(m, t, C) IN
  /\ \A k \in DOMAIN cc : GetOr0(obs, ToStr(k)) = cc[k]
  /\ \A s \in DOMAIN obs : \E k \in DOMAIN cc : ToStr(k) = s

Op ==
  /\ IsEvent("Op")
  /\ aux' = LET t == IF Ev.op = "adv" THEN now + Ev.d ELSE now
                m2 == CASE Ev.op = "rec" -> [ms EXCEPT ![Ev.m] = RecordM(@, now, Ev.code, Ev.lat, C, Period)]
                        [] Ev.op = "app" -> [ms EXCEPT ![Ev.dst] = AppendM(@, ms[Ev.src], now, C)]
                        [] Ev.op = "exp" -> [ms EXCEPT ![Ev.dst] = ExportM(ms[Ev.src], now, C)]
                        [] Ev.op = "rst" -> [ms EXCEPT ![Ev.m] = ResetM(@, now, 10)]
                        [] OTHER -> ms
                ag == CASE Ev.op = "app" -> IF (DOMAIN ms[Ev.src].codes \ DOMAIN ms[Ev.dst].codes) # {} \/ Ev.src \in aged
                                              THEN aged \cup {Ev.dst} ELSE aged
                        [] Ev.op = "exp" -> IF Ev.src \in aged THEN aged \cup {Ev.dst} ELSE aged \ {Ev.dst}
                        [] Ev.op = "rst" -> aged \ {Ev.m}
                        [] OTHER -> aged
                agree == \A x \in DOMAIN m2 :
                           /\ Ev.read[x].total = Total(m2[x], t, C) /\ Ev.read[x].neterr = NetErr(m2[x], t, C)
                           /\ CodesAgree(Ev.read[x].codes, m2[x], t)
                           /\ LET bag == HAll(m2[x].hist) IN
                              /\ Near(Ev.read[x].q.q100, QuantileOf(bag, 100))
                              /\ Near(Ev.read[x].q.q50, QuantileOf(bag, 50))
                              /\ Near(Ev.read[x].q.q10, QuantileOf(bag, 10))
            IN [t |-> t, ms |-> m2, aged |-> ag, agree |-> agree]
  /\ now' = aux'.t /\ ms' = aux'.ms /\ aged' = aux'.aged
  /\ bad' = ReportAll(bad, scn, l, <<
       <<\A x \in DOMAIN ms : Ev.read[x].ratioOK, "X04.RatioIsQuotientOfCounts">>,
       <<\A x \in DOMAIN ms \ aux'.aged :
            LET s == Ev.read[x].codes IN
            Ev.read[x].total = (LET RECURSIVE S(_) S(D) == IF D = {} THEN 0 ELSE LET k == CHOOSE y \in D : TRUE IN s[k] + S(D \ {k}) IN S(DOMAIN s)),
         "X04.TotalIsSumOverStatuses">>,
       <<\A x \in DOMAIN ms \ aux'.aged : Ev.read[x].neterr = GetOr0(Ev.read[x].codes, "502") + GetOr0(Ev.read[x].codes, "504"),
         "X04.NetworkErrorsAre502And504">>,
       <<Ev.op = "app" => (~Ev.err /\ Ev.read[Ev.dst].total = Total(ms[Ev.dst], now, C) + Total(ms[Ev.src], now, C)), "X04.AppendAddsCounts">>,
       <<Ev.op = "exp" => (Ev.read[Ev.dst].total = Ev.read[Ev.src].total /\ Ev.read[Ev.dst].codes = Ev.read[Ev.src].codes
                           /\ Ev.read[Ev.dst].q = Ev.read[Ev.src].q), "X04.ExportIsSnapshot">>,
       <<Ev.op = "rst" => (Ev.read[Ev.m].total = 0 /\ Ev.read[Ev.m].neterr = 0 /\ Ev.read[Ev.m].q.q100 = 0), "X04.ResetEmpties">>,
       <<Ev.t = aux'.t, "TRACE.ClockConsistent">> >>)
  /\ drift' = IF aux'.agree THEN drift ELSE Report(drift, scn, l, "RTMetrics")
  /\ UNCHANGED <<scn, cfg>> /\ nev' = nev + 1

End == /\ IsEvent("End")
       /\ JsonSerialize("result.json", [bad |-> bad, drift |-> drift, events |-> nev, lines |-> l])
       /\ UNCHANGED <<scn, cfg, now, ms, aged, bad, drift, nev, aux>>
Next == Reset \/ Op \/ End
Spec == Init /\ [][Next]_vars
=============================================================================
