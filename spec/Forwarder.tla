------------------------------ MODULE Forwarder ------------------------------
(***************************************************************************)
(* forward.New (fwd.go, rewrite.go, headers.go) on top of                  *)
(* httputil.ReverseProxy, and forward.StateListener (middlewares.go).      *)
(*                                                                         *)
(* Part 1 - header algebra of the outgoing request (C08).                  *)
(*   A request is abstracted to                                            *)
(*     [e2e, hop, conn, upstream, tls, hostport, passhost]                 *)
(*   e2e      : end-to-end header names it carries                         *)
(*   hop      : hop-by-hop header names it carries                         *)
(*   conn     : header names listed as tokens of its Connection header     *)
(*   upstream : forwarding headers already supplied by an upstream proxy   *)
(*   The proxy applies, in this order (ReverseProxy.ServeHTTP):            *)
(*     director (forward.New: target, forwarding headers, Host)            *)
(*     removal of the headers named in Connection, then of the hop list    *)
(*     X-Forwarded-For append                                              *)
(*   ConnFirst = TRUE is the repaired order (the Connection-named headers  *)
(*   are dropped before the director sets the forwarding headers).         *)
(*                                                                         *)
(* Part 2 - the exchange as a fault machine with listener events (C16).    *)
(***************************************************************************)
EXTENDS Integers, Sequences, FiniteSets, TLC

Fwd == {"X-Forwarded-Proto", "X-Forwarded-Host", "X-Forwarded-Port", "X-Forwarded-Server", "X-Real-Ip"}
XFF == "X-Forwarded-For"
HopList == {"Connection", "Proxy-Connection", "Keep-Alive", "Proxy-Authenticate", "Proxy-Authorization", "Te", "Trailer",
            "Transfer-Encoding", "Upgrade"}

(* value classes of a forwarding header at the backend *)
Director(r) ==          \* header name -> "own" | "upstream" for the forwarding headers after the director
  [h \in Fwd |-> IF h = "X-Forwarded-Server" THEN "own"
                 ELSE IF h \in r.upstream THEN "upstream" ELSE "own"]

Outgoing(r, ConnFirst) ==
  LET d == Director(r)
      named == r.conn                                  \* removed because named in Connection
      fwdKept == IF ConnFirst THEN Fwd ELSE Fwd \ named
      e2eKept == r.e2e \ named
  IN [names |-> e2eKept \cup fwdKept \cup {XFF},
      vals |-> [h \in Fwd |-> IF h \in fwdKept THEN (IF ConnFirst /\ h \in named /\ h # "X-Forwarded-Server" THEN "own" ELSE d[h]) ELSE "absent"],
      xffHasPrior |-> XFF \in r.upstream /\ XFF \notin named,
      host |-> IF r.passhost THEN "client" ELSE "backend"]

(* ----- contract (C08) over what the backend received ----- *)
HeadersOK(r, o) ==
  /\ o.names \cap HopList = {}                                        \* no hop-by-hop header
  /\ (r.conn \cap r.e2e) \cap o.names = {}                            \* nothing the client named in Connection
  /\ (r.e2e \ r.conn) \subseteq o.names                               \* end-to-end headers preserved
ForwardingOK(r, o) ==
  \A h \in Fwd : o.vals[h] = "own" \/ (h \in r.upstream /\ h \notin r.conn /\ o.vals[h] = "upstream")
HostOK(r, o) == o.host = (IF r.passhost THEN "client" ELSE "backend")

(* ----- part 1b: protocol switches (Upgrade) ----- *)
(* A request asks for a switch when one of the tokens of its Connection header(s) is "upgrade" (any case, blanks ignored) *)
(* and it carries an Upgrade header.  For such a request the director keeps Upgrade and re-creates "Connection: Upgrade"  *)
(* (the one exception to the hop-by-hop rule); when the backend answers 101 the reverse proxy relays that response with   *)
(* its headers and then copies bytes in both directions until either side closes.  asks / backend are the abstractions:   *)
UpgradeOutcome(asks, backendSwitches) ==
  IF asks /\ backendSwitches
    THEN [status |-> 101, tunnel |-> TRUE, upgradeSeen |-> TRUE]
    ELSE [status |-> 200, tunnel |-> FALSE, upgradeSeen |-> asks]     \* an ordinary exchange; Upgrade is dropped unless asked for

(* ----- part 2: exchange outcomes ----- *)
Modes == {"ok", "refused", "close_before_head", "reset_before_head", "header_timeout", "client_cancel", "precancel",
          "abort_body", "other_error"}
WantStatus(mode) ==
  CASE mode = "ok" -> 200
    [] mode \in {"refused", "close_before_head", "reset_before_head"} -> 502
    [] mode = "header_timeout" -> 504
    [] mode \in {"client_cancel", "precancel"} -> 499
    [] mode = "other_error" -> 500
    [] mode = "abort_body" -> 200       \* the head was already relayed; the connection is aborted
(* listener events of one exchange; Deferred = FALSE is the code as found (straight-line notification) *)
ListenerEvents(mode, Deferred) ==
  IF mode = "abort_body" /\ ~Deferred THEN <<"connected">> ELSE <<"connected", "disconnected">>
Paired(evs) == evs = <<"connected", "disconnected">>
=============================================================================
