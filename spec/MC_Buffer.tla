------------------------------ MODULE MC_Buffer ------------------------------
(* Enumeration of the bounded input space of the buffer: the implementation  *)
(* model against the contract of C06 (request identity is checked on traces), *)
(* C07 (one response, the final attempt's, bounded retries) and C15 (limits,  *)
(* no temp files).                                                            *)
EXTENDS Buffer
CONSTANTS Cfgs, Reqs, ScriptSets, ImplicitPanics, EmptyFails, LeakNoReader
VARIABLES cfg, req, scripts, out
vars == <<cfg, req, scripts, out>>
Init == /\ cfg \in Cfgs /\ req \in Reqs /\ scripts \in ScriptSets
        /\ out = Run(cfg, req, scripts, ImplicitPanics, EmptyFails, LeakNoReader)
Next == UNCHANGED vars
Spec == Init /\ [][Next]_vars

Final == Sc(scripts, out.inv)
OverAt == \E k \in 1..(IF out.inv = 0 THEN 0 ELSE out.inv) : RespOver(cfg, Sc(scripts, k))
RequestLimit == ReqTooLarge(cfg, req) => out.status = 413 /\ out.inv = 0
ResponseLimit == (~ReqTooLarge(cfg, req) /\ OverAt) => out.status >= 400 /\ out.body = 0
NoTempFiles == out.files = 0
NoPanic == ~out.panic
InvocationCount ==
  (~ReqTooLarge(cfg, req) /\ ~OverAt /\ WantInv(cfg, req, scripts, 1, 0) = WantInv(cfg, req, scripts, 1, 200))
     => out.inv = WantInv(cfg, req, scripts, 1, 0)
FinalDelivered ==
  (~ReqTooLarge(cfg, req) /\ ~OverAt /\ ~out.panic) =>
     /\ out.from = out.inv
     /\ out.status = (IF Final.status = 0 THEN 200 ELSE Final.status)
     /\ ExpectBody(req, Final) => out.body = SumSeq(Final.writes)
=============================================================================
