------------------------------ MODULE Gen_Rate ------------------------------
EXTENDS MC_Rate, Json
CONSTANT Depth
VARIABLE hist
GInit == Init /\ hist = <<>>
GNext ==
  /\ Len(hist) < Depth
  /\ \/ \E s \in Sources, n \in Amounts : Request(s, n) /\ hist' = Append(hist, [op |-> "req", src |-> s, n |-> n])
     \/ \E d \in Advances : Advance(d) /\ hist' = Append(hist, [op |-> "adv", d |-> d])
GSpec == GInit /\ [][GNext]_<<vars, hist>>
Emit == Len(hist) = Depth => PrintT(ToJson([rates |-> rates, steps |-> hist]))
=============================================================================
