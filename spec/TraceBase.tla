----------------------------- MODULE TraceBase -----------------------------
(* Shared machinery of the trace specifications: the recorded log, the line *)
(* cursor, and the accumulators for contract violations and model drift.    *)
(* A trace file is a concatenation of scenarios, each starting with a       *)
(* "Reset" event; the orchestrator appends one final "End" event.           *)
EXTENDS Integers, Sequences, FiniteSets, TLC, Json

Log == ndJsonDeserialize("trace.ndjson")

MaxReports == 4000
MaxPerClause == 40

(* append a report unless the accumulator is full.  The cap is PER CLAUSE: a flood of reports of one clause must not   *)
(* crowd out the first report of another (each check reads only the clauses of its own property).                     *)
Report(acc, scn, line, clause) ==
  IF Len(acc) >= MaxReports \/ Cardinality({i \in 1..Len(acc) : acc[i].clause = clause}) >= MaxPerClause THEN acc
  ELSE Append(acc, [scn |-> scn, line |-> line, clause |-> clause])

(* Checks is a sequence of <<condition, clause>>; returns acc plus one report per false condition *)
RECURSIVE ReportAll(_, _, _, _)
ReportAll(acc, scn, line, checks) ==
  IF checks = <<>> THEN acc
  ELSE ReportAll(IF Head(checks)[1] THEN acc ELSE Report(acc, scn, line, Head(checks)[2]),
                 scn, line, Tail(checks))

Has(r, f) == f \in DOMAIN r
=============================================================================
