----------------------------- MODULE TraceBase -----------------------------
(* Shared machinery of the trace specifications: the recorded log, the line *)
(* cursor, and the accumulators for contract violations and model drift.    *)
(* A trace file is a concatenation of scenarios, each starting with a       *)
(* "Reset" event; the orchestrator appends one final "End" event.           *)
EXTENDS Integers, Sequences, TLC, Json

Log == ndJsonDeserialize("trace.ndjson")

MaxReports == 400

(* append a report unless the accumulator is full *)
Report(acc, scn, line, clause) ==
  IF Len(acc) >= MaxReports THEN acc
  ELSE Append(acc, [scn |-> scn, line |-> line, clause |-> clause])

(* Checks is a sequence of <<condition, clause>>; returns acc plus one report per false condition *)
RECURSIVE ReportAll(_, _, _, _)
ReportAll(acc, scn, line, checks) ==
  IF checks = <<>> THEN acc
  ELSE ReportAll(IF Head(checks)[1] THEN acc ELSE Report(acc, scn, line, Head(checks)[2]),
                 scn, line, Tail(checks))

Has(r, f) == f \in DOMAIN r
=============================================================================
