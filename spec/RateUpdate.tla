---------------------------- MODULE RateUpdate ----------------------------
(***************************************************************************)
(* Extension of RateLimiter.tla: rate sets that change between requests    *)
(* (TokenLimiter with an ExtractRates option, TokenBucketSet.Update).      *)
(*                                                                         *)
(* Implementation shape: a bucket set keeps one bucket per PERIOD.         *)
(* Update(rates): a bucket whose period is still configured takes the new  *)
(* average (timePerToken) and burst, its tokens are cut down to the new    *)
(* burst, its refill checkpoint is left alone; a bucket whose period is    *)
(* gone is deleted; a period that is new gets a fresh full bucket.  The    *)
(* entry lifetime follows the largest period of the CURRENT set.           *)
(*                                                                         *)
(* Entry of the TTL map:  [exp, bks, ps]   ps[i] = period of bks[i].       *)
(***************************************************************************)
EXTENDS RateLimiter

Periods(rates) == [i \in 1..Len(rates) |-> rates[i].p]
Has(ps, p) == \E i \in 1..Len(ps) : ps[i] = p
IdxOf(ps, p) == CHOOSE i \in 1..Len(ps) : ps[i] = p

(* TokenBucketSet.Update; RefillOnUpdate is a mutant (every Update tops the bucket up to its burst) *)
UpdateSet(bks, ps, rates, now, RefillOnUpdate) ==
  [i \in 1..Len(rates) |->
     IF Has(ps, rates[i].p)
       THEN LET o == bks[IdxOf(ps, rates[i].p)]
            IN [avail |-> IF RefillOnUpdate THEN rates[i].b ELSE Min(o.avail, rates[i].b), last |-> o.last]
       ELSE [avail |-> rates[i].b, last |-> now]]

(* TokenLimiter.consumeRates with the request's own rate set *)
ConsumeRatesDyn(tracked, rates, cap, tps, now, s, n, victim, RefillOnUpdate) ==
  LET live == s \in DOMAIN tracked /\ ~Expired(tracked[s], now, tps)
      t0 == IF s \in DOMAIN tracked /\ ~live THEN Drop(tracked, s) ELSE tracked
      t1 == IF live \/ Cardinality(DOMAIN t0) < cap THEN t0 ELSE Drop(t0, victim)
      bks0 == IF live THEN UpdateSet(tracked[s].bks, tracked[s].ps, rates, now, RefillOnUpdate) ELSE FreshSet(rates, now)
      exp0 == now \div tps + TtlSec(rates, tps)
      c == ConsumeSet(bks0, rates, now, n, FALSE)
  IN [tracked |-> Put(t1, s, [exp |-> exp0, bks |-> c.bks, ps |-> Periods(rates)]),
      out |-> c.out, delay |-> c.delay, fresh |-> ~live]

(* ------------------------------ contract ------------------------------ *)
(* For every period p of the current set: the amount admitted since the    *)
(* rate configured for p last changed (or p last appeared) obeys the       *)
(* bound of that rate.  ghost: gp = function period -> [pot, t, a, b]      *)
RateOf(rates, p) == rates[IdxOf(Periods(rates), p)]
GhostStep(gp, rates, now, n, admitted) ==
  [p \in {rates[i].p : i \in 1..Len(rates)} |->
     LET r == RateOf(rates, p)
         same == p \in DOMAIN gp /\ gp[p].a = r.a /\ gp[p].b = r.b
         p0 == IF same THEN gp[p].pot ELSE 0
         t0 == IF same THEN gp[p].t ELSE now
     IN IF admitted THEN [pot |-> PotAfter(p0, r, now - t0, n), t |-> now, a |-> r.a, b |-> r.b]
        ELSE [pot |-> p0, t |-> t0, a |-> r.a, b |-> r.b]]
GhostOK(gp, rates) == \A p \in DOMAIN gp : gp[p].pot <= PotBound(RateOf(rates, p))
=============================================================================
