----------------------------- MODULE Trace_Source -----------------------------
(* Trace specification for the source extractors (C19).  Events:              *)
(*   New     : NewExtractor(variable) -> err                                  *)
(*   Extract : an extraction; aid identifies the peer address abstractly      *)
EXTENDS TraceBase, FiniteSets
VARIABLES l, scn, byAddr, byTok, seen, bad, drift, nev
vars == <<l, scn, byAddr, byTok, seen, bad, drift, nev>>
Ev == Log[l]
IsEvent(e) == l <= Len(Log) /\ Log[l].e = e /\ l' = l + 1
Init == l = 1 /\ scn = "" /\ byAddr = <<>> /\ byTok = <<>> /\ seen = <<>> /\ bad = <<>> /\ drift = <<>> /\ nev = 0
Reset == /\ IsEvent("Reset") /\ scn' = Ev.scn /\ byAddr' = <<>> /\ byTok' = <<>> /\ seen' = <<>> /\ UNCHANGED <<bad, drift>> /\ nev' = nev + 1
Put(f, k, v) == [x \in DOMAIN f \cup {k} |-> IF x = k THEN v ELSE f[x]]

NewEv == /\ IsEvent("New")
         /\ bad' = ReportAll(bad, scn, l, <<
               <<Ev.supported => ~Ev.err, "C19.SupportedVariableAccepted">>,
               <<~Ev.supported => Ev.err, "C19.UnsupportedVariableRefused">> >>)
         /\ UNCHANGED <<scn, byAddr, byTok, seen, drift>> /\ nev' = nev + 1

(* An extractor is a function of the request: the same remote address (for client.ip) gives the same outcome - token, *)
(* amount, error or not - whatever was extracted before.  Holds for malformed addresses too: refused once, refused always. *)
Outcome == [token |-> Ev.token, amount |-> Ev.amount, err |-> Ev.err]
SameAsBefore == (Ev.kind = "ip" /\ Ev.remote \in DOMAIN seen) => seen[Ev.remote] = Outcome
Extract ==
  /\ IsEvent("Extract")
  /\ seen' = IF Ev.kind = "ip" /\ Ev.remote \notin DOMAIN seen /\ ~Ev.panicked THEN Put(seen, Ev.remote, Outcome) ELSE seen
  /\ IF Ev.kind = "ip"
       THEN IF Ev.wellformed
              THEN /\ bad' = ReportAll(bad, scn, l, <<
                          <<~Ev.err /\ ~Ev.panicked, "C19.PeerAddressExtracted">>,
                          <<SameAsBefore, "C19.SameRequestSameOutcome">>,
                          <<~Ev.err => Ev.amount = 1, "C19.CountsOneUnit">>,
                          <<~Ev.err => Ev.token \in {Ev.ip, Ev.ipzone}, "C19.TokenIsPeerAddress">>,
                          <<(~Ev.err /\ Ev.aid \in DOMAIN byAddr) => byAddr[Ev.aid] = Ev.token, "C19.SameAddressSameToken">>,
                          <<(~Ev.err /\ Ev.token \in DOMAIN byTok) => byTok[Ev.token] = Ev.aid, "C19.DifferentAddressDifferentToken">> >>)
                   /\ byAddr' = IF Ev.err \/ Ev.aid \in DOMAIN byAddr THEN byAddr ELSE Put(byAddr, Ev.aid, Ev.token)
                   /\ byTok' = IF Ev.err \/ Ev.token \in DOMAIN byTok THEN byTok ELSE Put(byTok, Ev.token, Ev.aid)
              ELSE /\ bad' = ReportAll(bad, scn, l, << <<~Ev.panicked, "C19.MalformedAddressNoPanic">>,
                                                             <<SameAsBefore, "C19.SameRequestSameOutcome">> >>)
                   /\ UNCHANGED <<byAddr, byTok>>
       ELSE /\ bad' = ReportAll(bad, scn, l, <<
                   <<~Ev.err /\ ~Ev.panicked, "C19.ValueExtracted">>,
                   <<Ev.amount = 1, "C19.CountsOneUnit">>,
                   <<Ev.token = Ev.want, IF Ev.kind = "host" THEN "C19.HostIsToken" ELSE "C19.HeaderValueIsToken">> >>)
            /\ UNCHANGED <<byAddr, byTok>>
  /\ UNCHANGED <<scn, drift>> /\ nev' = nev + 1

End == /\ IsEvent("End")
       /\ JsonSerialize("result.json", [bad |-> bad, drift |-> drift, events |-> nev, lines |-> l])
       /\ UNCHANGED vars
Next == Reset \/ NewEv \/ Extract \/ End
Spec == Init /\ [][Next]_vars
=============================================================================
