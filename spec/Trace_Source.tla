----------------------------- MODULE Trace_Source -----------------------------
(* Trace specification for the source extractors (C19).  Events:              *)
(*   New     : NewExtractor(variable) -> err                                  *)
(*   Extract : an extraction; aid identifies the peer address abstractly      *)
EXTENDS TraceBase, FiniteSets
VARIABLES l, scn, byAddr, byTok, bad, drift, nev
vars == <<l, scn, byAddr, byTok, bad, drift, nev>>
Ev == Log[l]
IsEvent(e) == l <= Len(Log) /\ Log[l].e = e /\ l' = l + 1
Init == l = 1 /\ scn = "" /\ byAddr = <<>> /\ byTok = <<>> /\ bad = <<>> /\ drift = <<>> /\ nev = 0
Reset == /\ IsEvent("Reset") /\ scn' = Ev.scn /\ byAddr' = <<>> /\ byTok' = <<>> /\ UNCHANGED <<bad, drift>> /\ nev' = nev + 1
Put(f, k, v) == [x \in DOMAIN f \cup {k} |-> IF x = k THEN v ELSE f[x]]

NewEv == /\ IsEvent("New")
         /\ bad' = ReportAll(bad, scn, l, <<
               <<Ev.supported => ~Ev.err, "C19.SupportedVariableAccepted">>,
               <<~Ev.supported => Ev.err, "C19.UnsupportedVariableRefused">> >>)
         /\ UNCHANGED <<scn, byAddr, byTok, drift>> /\ nev' = nev + 1

Extract ==
  /\ IsEvent("Extract")
  /\ IF Ev.kind = "ip"
       THEN IF Ev.wellformed
              THEN /\ bad' = ReportAll(bad, scn, l, <<
                          <<~Ev.err /\ ~Ev.panicked, "C19.PeerAddressExtracted">>,
                          <<~Ev.err => Ev.amount = 1, "C19.CountsOneUnit">>,
                          <<~Ev.err => Ev.token \in {Ev.ip, Ev.ipzone}, "C19.TokenIsPeerAddress">>,
                          <<(~Ev.err /\ Ev.aid \in DOMAIN byAddr) => byAddr[Ev.aid] = Ev.token, "C19.SameAddressSameToken">>,
                          <<(~Ev.err /\ Ev.token \in DOMAIN byTok) => byTok[Ev.token] = Ev.aid, "C19.DifferentAddressDifferentToken">> >>)
                   /\ byAddr' = IF Ev.err \/ Ev.aid \in DOMAIN byAddr THEN byAddr ELSE Put(byAddr, Ev.aid, Ev.token)
                   /\ byTok' = IF Ev.err \/ Ev.token \in DOMAIN byTok THEN byTok ELSE Put(byTok, Ev.token, Ev.aid)
              ELSE /\ bad' = ReportAll(bad, scn, l, << <<~Ev.panicked, "C19.MalformedAddressNoPanic">> >>)
                   /\ UNCHANGED <<byAddr, byTok>>
       ELSE /\ bad' = ReportAll(bad, scn, l, <<
                   <<~Ev.err /\ ~Ev.panicked, "C19.ValueExtracted">>,
                   <<Ev.amount = 1, "C19.CountsOneUnit">>,
                   <<Ev.token = Ev.want, IF Ev.kind = "host" THEN "C19.HostIsToken" ELSE "C19.HeaderValueIsToken">> >>)
            /\ UNCHANGED <<byAddr, byTok>>
  /\ UNCHANGED <<scn, drift>> /\ nev' = nev + 1

End == /\ IsEvent("End")
       /\ JsonSerialize("result.json", [bad |-> bad, drift |-> drift, events |-> nev, lines |-> l])
       /\ UNCHANGED vars
Next == Reset \/ NewEv \/ Extract \/ End
Spec == Init /\ [][Next]_vars
=============================================================================
