----------------------------- MODULE Trace_Stack -----------------------------
(* Trace specification for stacks of real middlewares: one "Stack" event per   *)
(* probe request, with the bare handler's response on an identical server as   *)
(* the oracle for the transparent case.                                        *)
EXTENDS Stack, TraceBase
VARIABLES l, scn, bad, drift, nev
vars == <<l, scn, bad, drift, nev>>
Ev == Log[l]
IsEvent(e) == l <= Len(Log) /\ Log[l].e = e /\ l' = l + 1
Init == l = 1 /\ scn = "" /\ bad = <<>> /\ drift = <<>> /\ nev = 0
Reset == /\ IsEvent("Reset") /\ scn' = Ev.scn /\ UNCHANGED <<bad, drift>> /\ nev' = nev + 1

StackEv ==
  /\ IsEvent("Stack")
  /\ LET st == Ev.layers  sc == Ev.script
         i == FirstIntervening(st)
         m == Outcome(st, sc, "")
     IN
     /\ bad' = ReportAll(bad, scn, l, <<
          <<~Ev.panicked, "C20.OneCompleteResponse">>,
          <<i # 0 => Ev.invoked = 0, "C20.InterveningLayerDoesNotInvokeHandler">>,
          <<i # 0 => Ev.status = InterveneStatus(st[i].name), "C20.InterveningStatusAsDocumented">>,
          <<i = 0 => Ev.invoked = 1, "C20.HandlerInvokedExactlyOnce">>,
          <<(i = 0 /\ ~sc.hijack) => Ev.status = Ev.bare.status, "C20.StatusRelayed">>,
          <<(i = 0 /\ ~sc.hijack) => Ev.hdrsEq, "C20.HeadersRelayed">>,
          <<(i = 0 /\ ~sc.hijack) => Ev.bodyEq, "C20.BodyRelayed">>,
          <<(i = 0 /\ ~sc.hijack) => Ev.extraHdrsOK, "C20.OnlyDocumentedAdditions">>,
          <<(i = 0 /\ sc.flush /\ ~sc.hijack /\ Ev.nchunks > 0 /\ ~HasBuffer(st)) => Ev.flushOK, "C20.FlushAvailable">>,
          \* ... and a flush the handler makes goes all the way down (also one made before any status or body byte)
          <<(i = 0 /\ ~sc.hijack /\ ~HasBuffer(st)) => Ev.flushReached, "C20.FlushAvailable">>,
          <<(i = 0 /\ sc.hijack) => Ev.hijackOK, "C20.HijackAvailable">> >>)
     /\ drift' = IF m.invoked = Ev.invoked /\ (sc.hijack \/ m.status = Ev.status) THEN drift ELSE Report(drift, scn, l, "stack")
  /\ UNCHANGED scn /\ nev' = nev + 1
End == /\ IsEvent("End")
       /\ JsonSerialize("result.json", [bad |-> bad, drift |-> drift, events |-> nev, lines |-> l])
       /\ UNCHANGED vars
Next == Reset \/ StackEv \/ End
Spec == Init /\ [][Next]_vars
=============================================================================
