----------------------------- MODULE Gen_Counter -----------------------------
EXTENDS MC_Counter, Json
CONSTANT Depth
VARIABLE hist
GInit == Init /\ hist = <<>>
GNext == /\ Len(hist) < Depth
         /\ \/ \E v \in Incs : Inc(v) /\ hist' = Append(hist, [op |-> "inc", v |-> v, which |-> "a"])
            \/ Read /\ hist' = Append(hist, [op |-> "count"])
            \/ ResetC /\ hist' = Append(hist, [op |-> "reset"])
            \/ \E d \in Advances : Advance(d) /\ hist' = Append(hist, [op |-> "adv", d |-> d])
GSpec == GInit /\ [][GNext]_<<vars, hist>>
Emit == Len(hist) = Depth => PrintT(ToJson([n |-> c.n, r |-> c.r, steps |-> hist]))
=============================================================================
