------------------------------ MODULE MC_TTLMap ------------------------------
(* Exhaustive model of the TTL map against what its users rely on.            *)
EXTENDS TTLMap
CONSTANTS Keys, Caps, Ttls, Advances, MaxOps, WrongVictim
VARIABLES cap, now, e, ref, last, n
vars == <<cap, now, e, ref, last, n>>
(* ref: ghost - what a user expects: key -> [val, exp] of its last successful Set/Increment, removed when told evicted *)
Init == cap \in Caps /\ now = 0 /\ e = <<>> /\ ref = <<>> /\ last = [op |-> "init"] /\ n = 0

Victims(k, ttl) == IF NeedsVictim(e, cap, k, ttl)
                     THEN (IF WrongVictim THEN DOMAIN e ELSE Nearest(e)) ELSE {""}
Set(k, v, ttl) ==
  /\ n < MaxOps
  /\ \E vic \in Victims(k, ttl) :
       LET r == SetOp(e, cap, now, k, v, ttl, vic) IN
       /\ e' = r.e
       /\ ref' = IF r.err THEN ref
                 ELSE LET r1 == IF r.evicted # "" /\ r.evicted \in DOMAIN ref THEN Drop(ref, r.evicted) ELSE ref
                      IN Put(r1, k, [val |-> v, exp |-> now + ttl])
       /\ last' = [op |-> "set", k |-> k, err |-> r.err, evicted |-> r.evicted,
                   nearest |-> IF r.evicted = "" THEN TRUE ELSE r.evicted \in Nearest(e)]
  /\ n' = n + 1 /\ UNCHANGED <<cap, now>>
Get(k) ==
  /\ n < MaxOps
  /\ LET r == GetOp(e, now, k) IN
     /\ e' = r.e
     /\ last' = [op |-> "get", k |-> k, found |-> r.found, val |-> r.val,
                 want |-> k \in DOMAIN ref /\ ref[k].exp > now, wantval |-> IF k \in DOMAIN ref THEN ref[k].val ELSE 0]
  /\ n' = n + 1 /\ UNCHANGED <<cap, now, ref>>
Advance(d) == /\ n < MaxOps /\ now' = now + d /\ n' = n + 1 /\ last' = [op |-> "adv"] /\ UNCHANGED <<cap, e, ref>>
Next == \/ \E k \in Keys, v \in {1, 2}, ttl \in Ttls : Set(k, v, ttl)
        \/ \E k \in Keys : Get(k)
        \/ \E d \in Advances : Advance(d)
Spec == Init /\ [][Next]_vars

WithinCapacity == Cardinality(DOMAIN e) <= (IF EffCap(cap) = 0 THEN 1 ELSE EffCap(cap))
GetReturnsLastSet == last.op = "get" => (last.found = last.want /\ (last.found => last.val = last.wantval))
EvictsNearestExpiry == last.op = "set" => last.nearest
=============================================================================
