-------------------------- MODULE Trace_RebalE2E --------------------------
(***************************************************************************)
(* Trace specification for the rebalancer with its default meter           *)
(* (extension X02).  Events: Reset, Upsert, Remove, Adv, Req (server that   *)
(* served, status it answered, effective weights afterwards).              *)
(*   impl     : RebalancerE2E.tla predicts the weights after every call    *)
(*   contract : the clauses of C10 evaluated on ratings DERIVED by the      *)
(*              model of the meter (nothing is read from the meters)       *)
(***************************************************************************)
EXTENDS RebalancerE2E, TraceBase

VARIABLES l, scn, cfg, now, srv, ms, timer, gh, bad, drift, nev, loose,
          aux     \* the model's step, computed once per event (TLC re-evaluates a LET for every primed conjunct otherwise)
vars == <<l, scn, cfg, now, srv, ms, timer, gh, bad, drift, nev, aux, loose>>
(* loose: after a rating exactly on the threshold the model does not know which branch the code took, hence not whether it *)
(* re-armed its back-off timer; until the weights are next seen to change (which re-arms it for certain) or an            *)
(* administration call resets everything, the model follows the observed weights and nothing is judged                   *)
Ev == Log[l]
IsEvent(e) == l <= Len(Log) /\ Log[l].e = e /\ l' = l + 1

C == CounterCfg(10, cfg.tps)
ObsW(ws) == [k \in {ws[i].k : i \in 1..Len(ws)} |-> ws[CHOOSE i \in 1..Len(ws) : ws[i].k = k].w]
ModelW(s) == [k \in {s[i].k : i \in 1..Len(s)} |-> s[CHOOSE i \in 1..Len(s) : s[i].k = k].cur]
OrigW(s) == [k \in {s[i].k : i \in 1..Len(s)} |-> s[CHOOSE i \in 1..Len(s) : s[i].k = k].orig]

Init == /\ l = 1 /\ scn = "" /\ cfg = [tps |-> 1, backoff |-> 1, cap |-> 4096] /\ now = 0
        /\ srv = <<>> /\ ms = <<>> /\ timer = -1 /\ gh = Ghost0 /\ bad = <<>> /\ drift = <<>> /\ nev = 0 /\ aux = <<>> /\ loose = FALSE

Reset == /\ IsEvent("Reset") /\ scn' = Ev.scn /\ cfg' = Ev.cfg /\ now' = 0
         /\ srv' = <<>> /\ ms' = <<>> /\ timer' = -1 /\ gh' = Ghost0
         /\ loose' = FALSE /\ UNCHANGED <<bad, drift, aux>> /\ nev' = nev + 1

Adv == /\ IsEvent("Adv") /\ now' = now + Ev.d
       /\ UNCHANGED <<scn, cfg, srv, ms, timer, gh, bad, drift, aux, loose>> /\ nev' = nev + 1

Upsert ==
  /\ IsEvent("Upsert")
  /\ LET known == FindSrv(srv, Ev.k) # 0
         s2 == IF Ev.err THEN srv ELSE UpsertSrv(srv, Ev.k, Ev.w)
         m2 == IF Ev.err \/ known THEN ms ELSE Append(ms, FreshMeter(10))
         ga == GhostAdmin(gh, OrigW(s2), ObsW(Ev.weights))
     IN /\ srv' = s2 /\ ms' = m2
        /\ timer' = IF Ev.err THEN timer ELSE now - cfg.tps
        /\ gh' = IF Ev.err THEN gh ELSE ga.ghost
        /\ bad' = IF Ev.err THEN bad ELSE ReportAll(bad, scn, l, << <<ga.viol = {}, "X02.AdminRestoresConfigured">> >>)
        /\ drift' = IF ObsW(Ev.weights) = ModelW(s2) THEN drift ELSE Report(drift, scn, l, "rb.UpsertServer")
  /\ loose' = (loose /\ Ev.err) /\ UNCHANGED <<scn, cfg, now, aux>> /\ nev' = nev + 1

Remove ==
  /\ IsEvent("Remove")
  /\ LET i == FindSrv(srv, Ev.k)
         s2 == IF Ev.err \/ i = 0 THEN srv ELSE RemoveSrv(srv, Ev.k)
         m2 == IF Ev.err \/ i = 0 THEN ms ELSE SubSeq(ms, 1, i - 1) \o SubSeq(ms, i + 1, Len(ms))
         ga == GhostAdmin(gh, OrigW(s2), ObsW(Ev.weights))
     IN /\ srv' = s2 /\ ms' = m2
        /\ timer' = IF Ev.err \/ i = 0 THEN timer ELSE now - cfg.tps
        /\ gh' = IF Ev.err \/ i = 0 THEN gh ELSE ga.ghost
        /\ bad' = ReportAll(bad, scn, l, << <<Ev.err = (i = 0), "X02.RemoveUnknownFails">>,
                                             <<(Ev.err \/ i = 0) \/ ga.viol = {}, "X02.AdminRestoresConfigured">> >>)
        /\ drift' = IF ObsW(Ev.weights) = ModelW(s2) THEN drift ELSE Report(drift, scn, l, "rb.RemoveServer")
  /\ loose' = (loose /\ (Ev.err \/ FindSrv(srv, Ev.k) = 0)) /\ UNCHANGED <<scn, cfg, now, aux>> /\ nev' = nev + 1

Req ==
  /\ IsEvent("Req")
  /\ aux' = LET i == FindSrv(srv, Ev.k) IN
            IF i = 0 THEN [member |-> FALSE]
            ELSE LET r == ServeE2E(srv, ms, timer, now, cfg.backoff, cfg.cap, i, Ev.code, C)
                     keys == {srv[j].k : j \in 1..Len(srv)}
                     rt == [k \in keys |-> r.vals[FindSrv(srv, k)]]
                     rd == [k \in keys |-> r.rdy[FindSrv(srv, k)]]
                     g == GhostReq(gh, now, rt, rd, ObsW(Ev.weights), cfg.backoff, cfg.cap)
                 IN [member |-> TRUE, srv |-> r.srv, ms |-> r.ms, timer |-> r.timer, tie |-> r.tie,
                     ghost |-> g.ghost, viol |-> g.viol, obs |-> ObsW(Ev.weights)]
  /\ LET a == aux' IN
     IF ~a.member
          THEN /\ bad' = ReportAll(bad, scn, l, << <<FALSE, "X02.ServedByMember">> >>)
               /\ UNCHANGED <<srv, ms, timer, gh, drift, loose>>
        ELSE IF a.tie \/ loose   \* a rating exactly on the outlier threshold (or its aftermath): follow the code, judge nothing
          THEN /\ srv' = [j \in 1..Len(srv) |-> [srv[j] EXCEPT !.cur = a.obs[srv[j].k]]]
               /\ ms' = a.ms
               /\ timer' = IF a.obs # ModelW(srv) THEN now + cfg.backoff ELSE timer
               /\ loose' = (a.obs = ModelW(srv))          \* a visible change re-arms the timer for certain
               /\ gh' = [a.ghost EXCEPT !.conv = 0, !.out = <<>>, !.lastAdj = IF a.obs # ModelW(srv) THEN now ELSE NoTime]
               /\ UNCHANGED <<bad, drift>>
        ELSE /\ srv' = a.srv /\ ms' = a.ms /\ timer' = a.timer
             /\ gh' = a.ghost
             /\ bad' = ReportAll(bad, scn, l,
                         <<  <<"C10.WeightWithinBounds" \notin a.viol, "X02.WeightWithinBounds">>,
                             <<"C10.OncePerBackoff" \notin a.viol, "X02.OncePerBackoff">>,
                             <<"C10.OutlierShareNeverGrows" \notin a.viol, "X02.OutlierShareNeverGrows">>,
                             <<"C10.OutlierLosesShare" \notin a.viol, "X02.OutlierLosesShare">>,
                             <<"C10.ConvergesWithinSix" \notin a.viol, "X02.ConvergesWithinSix">>,
                             <<"C10.NoAdjustmentUnlessReady" \notin a.viol, "X02.NoAdjustmentUnlessReady">> >>)
             /\ drift' = IF a.obs = ModelW(a.srv) THEN drift ELSE Report(drift, scn, l, "rb.recordMetrics+adjustWeights")
             /\ loose' = FALSE
  /\ UNCHANGED <<scn, cfg, now>> /\ nev' = nev + 1

NoServe ==
  /\ IsEvent("NoServe")
  /\ bad' = ReportAll(bad, scn, l, << <<~\E j \in 1..Len(srv) : srv[j].cur > 0, "X02.ServableNeverRefused">>,
                                      <<Ev.status >= 500, "X02.ErrorResponseWhenUnservable">> >>)
  /\ UNCHANGED <<scn, cfg, now, srv, ms, timer, gh, drift, aux, loose>> /\ nev' = nev + 1

End == /\ IsEvent("End")
       /\ JsonSerialize("result.json", [bad |-> bad, drift |-> drift, events |-> nev, lines |-> l])
       /\ UNCHANGED <<scn, cfg, now, srv, ms, timer, gh, bad, drift, nev, aux, loose>>
Next == Reset \/ Adv \/ Upsert \/ Remove \/ Req \/ NoServe \/ End
Spec == Init /\ [][Next]_vars
=============================================================================
