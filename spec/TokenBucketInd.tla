--------------------------- MODULE TokenBucketInd ---------------------------
(***************************************************************************)
(* Unbounded-history argument for C03 (Apalache), one source, one rate     *)
(* [P, A, B] with P divisible by A (timePerToken = P \div A whole ticks).  *)
(* The admission potential M (scaled by A: admitting n costs n*P, a tick   *)
(* pays A) is stored lazily with the time MT of its last update, exactly   *)
(* as the trace contract does.  With                                       *)
(*    Mnow = max(M - (now - MT)*A, 0)                                      *)
(*    Debt = (B - avail)*P - (now - last)*A                                *)
(* the conjunction IndInv (in particular  Mnow <= max(Debt + P, 0))  is    *)
(* inductive for refill / consume / advance of bucket.go, and implies the  *)
(* bound  M <= (B + 1) * P  that is equivalent to the interval statement   *)
(* of the property.  Histories are unbounded (any number of requests, any  *)
(* advances up to MaxAdv per step).                                        *)
(***************************************************************************)
EXTENDS Integers

CONSTANTS
    \* @type: Int;
    P,
    \* @type: Int;
    A,
    \* @type: Int;
    B,
    \* @type: Int;
    MaxAdv,
    \* @type: Bool;
    NoCheckpoint      \* mutant: lastRefresh is not moved when tokens are credited

VARIABLES
    \* @type: Int;
    now,
    \* @type: Int;
    avail,
    \* @type: Int;
    last,
    \* @type: Int;
    m,
    \* @type: Int;
    mt

Tpt == P \div A
Max(x, y) == IF x > y THEN x ELSE y
Min(x, y) == IF x < y THEN x ELSE y
Mnow == Max(m - (now - mt) * A, 0)
Debt == (B - avail) * P - (now - last) * A

TypeOK == now \in Nat /\ avail \in 0..B /\ last \in Nat /\ m \in Nat /\ mt \in Nat /\ last <= now /\ mt <= now
IndInv == TypeOK /\ Mnow <= Max(Debt + P, 0)
Bound == Mnow <= (B + 1) * P      \* at an admission MT = now, so this is the stored potential

Init == now = 0 /\ avail = B /\ last = 0 /\ m = 0 /\ mt = 0
IndInit == IndInv

(* updateAvailableTokens then consume(n) *)
Request(n) ==
  LET k == (now - last) \div Tpt
      av1 == IF k > 0 THEN Min(avail + k, B) ELSE avail
      l1 == IF k > 0 /\ ~NoCheckpoint THEN now ELSE last
  IN /\ last' = l1
     /\ IF av1 >= n
          THEN /\ avail' = av1 - n
               /\ m' = Mnow + n * P
               /\ mt' = now
          ELSE /\ avail' = av1
               /\ UNCHANGED <<m, mt>>
     /\ UNCHANGED now
Advance(d) == now' = now + d /\ UNCHANGED <<avail, last, m, mt>>
Next == (\E n \in 1..B : Request(n)) \/ (\E d \in 1..MaxAdv : Advance(d))
=============================================================================
