---------------------------- MODULE MC_TTLMapFull ----------------------------
(* Exhaustive model of the TTL map's whole public surface against what a user of a *)
(* counter-with-lifetime relies on.  ref is the ghost a user keeps: key -> [val,   *)
(* exp] of what it last stored, dropped when the map says it evicted the key.      *)
EXTENDS TTLMapFull
CONSTANTS Keys, Caps, Ttls, Advances, MaxOps, Mutant
VARIABLES cap, now, e, ref, last, n
vars == <<cap, now, e, ref, last, n>>
Init == cap \in Caps /\ now = 0 /\ e = <<>> /\ ref = <<>> /\ last = [op |-> "init"] /\ n = 0

Victims(k, ttl) == IF NeedsVictim(e, cap, k, ttl) THEN Nearest(e) ELSE {""}
RefAfter(r, k, v, ttl) ==
  IF r.err THEN ref
  ELSE LET r1 == IF r.evicted # "" /\ r.evicted \in DOMAIN ref THEN Drop(ref, r.evicted) ELSE ref
       IN Put(r1, k, [val |-> v, exp |-> now + ttl])
Set(k, v, ttl) ==
  /\ n < MaxOps
  /\ \E vic \in Victims(k, ttl) :
       LET r == SetOp(e, cap, now, k, v, ttl, vic) IN
       /\ e' = r.e /\ ref' = RefAfter(r, k, v, ttl)
       /\ last' = [op |-> "set", k |-> k]
  /\ n' = n + 1 /\ UNCHANGED <<cap, now>>
Inc(k, v, ttl) ==
  /\ n < MaxOps
  /\ \E vic \in (IF k \in DOMAIN e THEN {""} ELSE Victims(k, ttl)) :
       LET r == IF Mutant = "inc-keeps-expired-value" /\ k \in DOMAIN e /\ ttl > 0 /\ IsInt(e[k].val)
                  THEN [e |-> Put(e, k, [val |-> e[k].val + v, exp |-> now + ttl]), err |-> FALSE, val |-> e[k].val + v, evicted |-> ""]
                  ELSE IncFull(e, cap, now, k, v, ttl, vic)
           live == k \in DOMAIN ref /\ ref[k].exp > now IN
       /\ e' = r.e /\ ref' = RefAfter(r, k, r.val, ttl)
       /\ last' = [op |-> "inc", k |-> k, err |-> r.err, val |-> r.val,
                   wanterr |-> (ttl <= 0 \/ (live /\ ~IsInt(ref[k].val))),
                   wantval |-> IF live THEN ref[k].val + v ELSE v,
                   same |-> (r.err => r.e = e)]
  /\ n' = n + 1 /\ UNCHANGED <<cap, now>>
Get(k) ==
  /\ n < MaxOps
  /\ LET r == GetIntOp(e, now, k)
         live == k \in DOMAIN ref /\ ref[k].exp > now IN
     /\ e' = r.e
     /\ last' = [op |-> "getint", k |-> k, found |-> r.found, val |-> r.val, err |-> r.err,
                 want |-> live /\ IsInt(ref[k].val), wanterr |-> live /\ ~IsInt(ref[k].val),
                 wantval |-> IF live THEN ref[k].val ELSE 0]
  /\ n' = n + 1 /\ UNCHANGED <<cap, now, ref>>
RemoveExpired(m) ==
  /\ n < MaxOps
  /\ LET cnt == Min(m, Cardinality(Expired(e, now))) IN
     \E vs \in SUBSET (IF Mutant = "remove-expired-takes-live" THEN DOMAIN e ELSE Expired(e, now)) :
       /\ Cardinality(vs) = (IF Mutant = "remove-expired-takes-live" THEN Min(m, Cardinality(DOMAIN e)) ELSE cnt)
       /\ MustBeAmongFirst(e, Cardinality(vs)) \subseteq vs /\ vs \subseteq MayBeAmongFirst(e, Cardinality(vs))
       /\ e' = DropAll(e, vs)
       /\ last' = [op |-> "rmexp", removed |-> Cardinality(vs), lostlive |-> {k \in vs : e[k].exp > now}]
  /\ n' = n + 1 /\ UNCHANGED <<cap, now, ref>>
RemoveLastUsed(m) ==
  /\ n < MaxOps
  /\ LET cnt == Min(m, Cardinality(DOMAIN e)) IN
     \E vs \in SUBSET DOMAIN e :
       /\ Cardinality(vs) = cnt
       /\ MustBeAmongFirst(e, cnt) \subseteq vs /\ vs \subseteq MayBeAmongFirst(e, cnt)
       /\ e' = DropAll(e, vs)
       /\ ref' = [x \in DOMAIN ref \ vs |-> ref[x]]
       /\ last' = [op |-> "rmlast", removed |-> cnt, nearest |-> \A a \in vs, b \in DOMAIN e \ vs : e[a].exp <= e[b].exp]
  /\ n' = n + 1 /\ UNCHANGED <<cap, now>>
Advance(d) == /\ n < MaxOps /\ now' = now + d /\ n' = n + 1 /\ last' = [op |-> "adv"] /\ UNCHANGED <<cap, e, ref>>
Next == \/ \E k \in Keys, v \in {1, NonInt}, ttl \in Ttls : Set(k, v, ttl)
        \/ \E k \in Keys, v \in {1, 2}, ttl \in Ttls : Inc(k, v, ttl)
        \/ \E k \in Keys : Get(k)
        \/ \E m \in {1, 2} : RemoveExpired(m) \/ RemoveLastUsed(m)
        \/ \E d \in Advances : Advance(d)
Spec == Init /\ [][Next]_vars

WithinCapacity == Cardinality(DOMAIN e) <= (IF EffCap(cap) = 0 THEN 1 ELSE EffCap(cap))
(* a counter: Increment returns the sum of the increments made during the entry's current lifetime *)
IncrementIsSum == last.op = "inc" => (last.err = last.wanterr /\ (~last.err => last.val = last.wantval) /\ last.same)
GetIntReturnsStored == last.op = "getint" => (last.found = last.want /\ last.err = last.wanterr /\ (last.found => last.val = last.wantval))
RemoveExpiredSparesLive == last.op = "rmexp" => last.lostlive = {}
RemoveLastUsedNearestFirst == last.op = "rmlast" => last.nearest
(* every live entry the user still expects is in the map with that value *)
RefIsInMap == \A k \in DOMAIN ref : ref[k].exp > now => (k \in DOMAIN e /\ e[k].val = ref[k].val /\ e[k].exp = ref[k].exp)
=============================================================================
