---------------------------- MODULE MC_RebalE2E ----------------------------
(* Exhaustive model of the composition rebalancer + default meter: every request is served by some member (any member: the  *)
(* selection order is abstracted) and answered with some status class; ratings and readiness come from the meter model.   *)
(* The window length N is a parameter here (the code's default meter has N = 10; the trace specification uses that).       *)
EXTENDS RebalancerE2E
CONSTANTS Pool,        \* sequence of <<key, weight>>
          N, Backoff, Cap, Codes, Advances, MaxReq, Horizon
VARIABLES now, srv, ms, timer, gh, viol, nreq, tied,
          aux    \* the step, computed once (a function of the other variables: adds no states)
vars == <<now, srv, ms, timer, gh, viol, nreq, tied, aux>>

CurF(s) == [k \in {s[i].k : i \in 1..Len(s)} |-> s[FindSrv(s, k)].cur]
OrigF(s) == [k \in {s[i].k : i \in 1..Len(s)} |-> s[FindSrv(s, k)].orig]
C == CounterCfg(N, 1)

Init == /\ now = 0 /\ timer = -1
        /\ srv = [i \in 1..Len(Pool) |-> [k |-> Pool[i][1], orig |-> Pool[i][2], cur |-> Pool[i][2]]]
        /\ ms = [i \in 1..Len(Pool) |-> FreshMeter(N)]
        /\ gh = [Ghost0 EXCEPT !.orig = OrigF(srv), !.w = CurF(srv)]
        /\ viol = {} /\ nreq = 0 /\ tied = FALSE /\ aux = <<>>

Request(i, code) ==
  /\ nreq < MaxReq
  /\ aux' = LET r == ServeE2E(srv, ms, timer, now, Backoff, Cap, i, code, C)
                keys == DOMAIN OrigF(srv)
                rt == [k \in keys |-> r.vals[FindSrv(srv, k)]]
                rd == [k \in keys |-> r.rdy[FindSrv(srv, k)]]
                g == GhostReq(gh, now, rt, rd, CurF(r.srv), Backoff, Cap)
            IN [srv |-> r.srv, ms |-> r.ms, timer |-> r.timer, tie |-> r.tie, ghost |-> g.ghost, viol |-> g.viol]
  /\ srv' = aux'.srv /\ ms' = aux'.ms /\ timer' = aux'.timer
  /\ gh' = aux'.ghost /\ viol' = viol \cup aux'.viol /\ tied' = (tied \/ aux'.tie)
  /\ nreq' = nreq + 1 /\ UNCHANGED now

Advance(d) == /\ now + d <= Horizon /\ now' = now + d /\ UNCHANGED <<srv, ms, timer, gh, viol, nreq, tied, aux>>

Next == (\E i \in 1..Len(Pool), code \in Codes : Request(i, code)) \/ (\E d \in Advances : Advance(d))
Spec == Init /\ [][Next]_vars

(* C10's clauses hold for the composition, whatever statuses the backends answer *)
Contract == viol = {}
(* a meter that became ready stays ready; counted buckets never exceed the window length *)
ReadinessMonotone == [][\A i \in 1..Len(Pool) : Ready(ms[i], C) => Ready(ms'[i], C)]_vars
CountedWithinWindow == \A i \in 1..Len(Pool) : ms[i].a.cb <= N /\ ms[i].b.cb <= N
(* no weight moves before every meter has seen N bucket changes *)
NoAdjustmentBeforeReady == (\E i \in 1..Len(Pool) : ~Ready(ms[i], C)) => CurF(srv) = OrigF(srv)
(* reachability probes, run as NEGATIVE configurations (a counterexample shows the bounded model is not vacuous) *)
NeverAdjusts == CurF(srv) = OrigF(srv)
NeverConvergesBack == ~(gh.conv > 0 /\ CurF(srv) = OrigF(srv) /\ nreq > 0 /\ gh.lastAdj # NoTime)
=============================================================================
