------------------------------- MODULE TTLMap -------------------------------
(***************************************************************************)
(* holsterv4/collections.TTLMap (ttlmap.go + priority_queue.go): a map     *)
(* with per-entry expiry in whole seconds and a capacity; the rate limiter *)
(* keeps one entry per source in it.                                       *)
(*   elems : key -> [val, exp]      (exp in seconds; an expired entry      *)
(*            stays until it is looked up or evicted)                      *)
(* Operations (each under the map's lock): Set, Get, Increment, Len,       *)
(* RemoveExpired(n), RemoveLastUsed(n).                                    *)
(***************************************************************************)
EXTENDS Integers, FiniteSets, TLC

EffCap(cap) == IF cap <= 0 THEN 0 ELSE cap
MinExp(e) == CHOOSE m \in {e[k].exp : k \in DOMAIN e} : \A k \in DOMAIN e : m <= e[k].exp
Nearest(e) == {k \in DOMAIN e : e[k].exp = MinExp(e)}
Drop(e, k) == [x \in DOMAIN e \ {k} |-> e[x]]
Put(e, k, r) == [x \in DOMAIN e \cup {k} |-> IF x = k THEN r ELSE e[x]]

(* set(): victim is the entry removed when the map is full (must be one nearest to expiry) *)
SetOp(e, cap, now, k, v, ttl, victim) ==
  IF ttl <= 0 THEN [e |-> e, err |-> TRUE, evicted |-> ""]
  ELSE IF k \in DOMAIN e THEN [e |-> Put(e, k, [val |-> v, exp |-> now + ttl]), err |-> FALSE, evicted |-> ""]
  ELSE IF Cardinality(DOMAIN e) >= EffCap(cap) /\ DOMAIN e # {}
         THEN [e |-> Put(Drop(e, victim), k, [val |-> v, exp |-> now + ttl]), err |-> FALSE, evicted |-> victim]
         ELSE [e |-> Put(e, k, [val |-> v, exp |-> now + ttl]), err |-> FALSE, evicted |-> ""]
NeedsVictim(e, cap, k, ttl) == ttl > 0 /\ k \notin DOMAIN e /\ Cardinality(DOMAIN e) >= EffCap(cap) /\ DOMAIN e # {}

GetOp(e, now, k) ==
  IF k \notin DOMAIN e THEN [e |-> e, found |-> FALSE, val |-> 0]
  ELSE IF e[k].exp <= now THEN [e |-> Drop(e, k), found |-> FALSE, val |-> 0]
  ELSE [e |-> e, found |-> TRUE, val |-> e[k].val]

IncOp(e, cap, now, k, v, ttl, victim) ==
  IF ttl <= 0 THEN [e |-> e, err |-> TRUE, val |-> 0, evicted |-> ""]
  ELSE IF k \in DOMAIN e /\ e[k].exp > now
         THEN [e |-> Put(e, k, [val |-> e[k].val + v, exp |-> now + ttl]), err |-> FALSE, val |-> e[k].val + v, evicted |-> ""]
         ELSE LET s == SetOp(e, cap, now, k, v, ttl, victim) IN [e |-> s.e, err |-> FALSE, val |-> v, evicted |-> s.evicted]

RECURSIVE RemoveExpiredOp(_, _, _)
RemoveExpiredOp(e, now, n) ==
  IF n = 0 \/ DOMAIN e = {} \/ MinExp(e) > now THEN e
  ELSE RemoveExpiredOp(Drop(e, CHOOSE k \in Nearest(e) : TRUE), now, n - 1)
=============================================================================
