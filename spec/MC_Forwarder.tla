---------------------------- MODULE MC_Forwarder ----------------------------
(* Enumeration of the abstract request space (header algebra) and of the fault *)
(* machine of one exchange.                                                    *)
EXTENDS Forwarder
CONSTANTS E2E, ConnFirst, Deferred
VARIABLES r, o, mode, evs
vars == <<r, o, mode, evs>>
AllReqs == [e2e : SUBSET E2E, hop : SUBSET {"Keep-Alive", "Te", "Proxy-Authorization"},
            conn : SUBSET (E2E \cup {"X-Real-Ip", "X-Forwarded-Proto", "X-Forwarded-Port", "X-Forwarded-For"}),
            upstream : SUBSET {"X-Real-Ip", "X-Forwarded-Proto", "X-Forwarded-Server", "X-Forwarded-For"},
            tls : {FALSE}, hostport : {FALSE}, passhost : BOOLEAN]
Plain == [e2e |-> {}, hop |-> {}, conn |-> {}, upstream |-> {}, tls |-> FALSE, hostport |-> FALSE, passhost |-> FALSE]
Init == /\ \/ r \in AllReqs /\ mode = "ok"
           \/ r = Plain /\ mode \in Modes
        /\ o = Outgoing(r, ConnFirst)
        /\ evs = ListenerEvents(mode, Deferred)
Next == UNCHANGED vars
Spec == Init /\ [][Next]_vars
Headers == HeadersOK(r, o)
Forwarding == ForwardingOK(r, o)
Host == HostOK(r, o)
EventsPaired == Paired(evs)
=============================================================================
