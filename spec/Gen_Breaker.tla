----------------------------- MODULE Gen_Breaker -----------------------------
EXTENDS MC_Breaker, Json
CONSTANT Depth
VARIABLE hist
GInit == Init /\ hist = <<>>
GNext == /\ Len(hist) < Depth
         /\ \/ \E r \in Reqs : Arrive(r, FALSE) /\ hist' = Append(hist, [op |-> "start", r |-> r])
            \/ \E r \in Reqs, c \in Codes : Finish(r, c) /\ hist' = Append(hist, [op |-> "finish", r |-> r, code |-> c])
            \/ \E d \in Advances : Advance(d) /\ hist' = Append(hist, [op |-> "adv", d |-> d])
GSpec == GInit /\ [][GNext]_<<vars, hist>>
Emit == Len(hist) = Depth => PrintT(ToJson([fallback |-> cfg.fallback, recovery |-> cfg.recovery, check |-> cfg.check, steps |-> hist]))
=============================================================================
