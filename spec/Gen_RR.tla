------------------------------ MODULE Gen_RR ------------------------------
(* Scenario generator: behaviours of MC_RR with their action sequence      *)
(* recorded in hist and printed as JSON once they reach Depth steps.       *)
EXTENDS MC_RR, Json
CONSTANT Depth
VARIABLE hist

GInit == Init /\ hist = <<>>
GNext ==
  /\ Len(hist) < Depth
  /\ \/ Pick /\ hist' = Append(hist, [op |-> "pick"])
     \/ \E k \in Keys, v \in Variants, w \in (0..MaxW) \cup {NoW} :
           Upsert(k, v, w) /\ hist' = Append(hist, [op |-> "upsert", k |-> k, v |-> v, w |-> w])
     \/ \E k \in Keys : Remove(k) /\ hist' = Append(hist, [op |-> "remove", k |-> k, v |-> 0])
GSpec == GInit /\ [][GNext]_<<vars, hist>>
Emit == Len(hist) = Depth => PrintT(ToJson(hist))
=============================================================================
