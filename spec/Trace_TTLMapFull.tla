--------------------------- MODULE Trace_TTLMapFull ---------------------------
(* Trace specification for the whole public surface of the real TTL map          *)
(* (extension X06).  After every mutating call the harness probes the keys that   *)
(* were live before it and logs the ones the map no longer finds ("missing"),     *)
(* and the map's Len().  The model e follows the code where the code had a free   *)
(* choice it made visible (which live entry went), and gives up predicting Len    *)
(* (tied) once an invisible choice among equally near expired entries was made.   *)
EXTENDS TTLMapFull, TraceBase
VARIABLES l, scn, cap, now, e, ref, bad, drift, nev, tied
vars == <<l, scn, cap, now, e, ref, bad, drift, nev, tied>>
Ev == Log[l]
IsEvent(x) == l <= Len(Log) /\ Log[l].e = x /\ l' = l + 1
Init == l = 1 /\ scn = "" /\ cap = 1 /\ now = 0 /\ e = <<>> /\ ref = <<>> /\ bad = <<>> /\ drift = <<>> /\ nev = 0 /\ tied = FALSE
Reset == /\ IsEvent("Reset") /\ scn' = Ev.scn /\ cap' = Ev.cfg.cap /\ now' = 0 /\ e' = <<>> /\ ref' = <<>>
         /\ tied' = FALSE /\ UNCHANGED <<bad, drift>> /\ nev' = nev + 1
Adv == /\ IsEvent("Adv") /\ now' = now + Ev.d /\ UNCHANGED <<scn, cap, e, ref, bad, drift, tied>> /\ nev' = nev + 1

Gone == {Ev.missing[i] : i \in 1..Len(Ev.missing)}
Live(k) == k \in DOMAIN ref /\ ref[k].exp > now
LenOK(e2, td) == td \/ Ev.len = Cardinality(DOMAIN e2)
CapBound == IF EffCap(cap) = 0 THEN 1 ELSE EffCap(cap)
RECURSIVE PickN(_, _)
PickN(S, k) == IF k <= 0 \/ S = {} THEN {} ELSE LET x == CHOOSE y \in S : TRUE IN {x} \cup PickN(S \ {x}, k - 1)

(* Set and Increment-that-stores share the eviction rule *)
Victim(need) == IF Gone # {} THEN CHOOSE k \in Gone : TRUE ELSE (IF need THEN CHOOSE k \in Nearest(e) : TRUE ELSE "")
EvictionChecks(need) == <<
   <<~need => Gone = {}, "X06.NoEntryLostBelowCapacity">>,
   <<need => Cardinality(Gone) <= 1 /\ (Gone = {} => Expired(e, now) # {}), "X06.ExactlyOneEntryForgotten">>,
   <<(need /\ Gone # {}) => Gone \subseteq Nearest(e), "X06.ForgetsNearestExpiry">>,
   <<Ev.len <= CapBound, "X06.LenWithinCapacity">> >>
RefPut(vic, k, v, ttl) == Put(IF vic # "" /\ vic \in DOMAIN ref THEN Drop(ref, vic) ELSE ref, k, [val |-> v, exp |-> now + ttl])

SetEv ==
  /\ IsEvent("Set")
  /\ LET need == NeedsVictim(e, cap, Ev.k, Ev.ttl)
         vic == Victim(need)
         r == SetOp(e, cap, now, Ev.k, Ev.v, Ev.ttl, vic) IN
     /\ bad' = ReportAll(bad, scn, l, <<<<Ev.err = (Ev.ttl <= 0), "X06.SetFailsOnlyForBadTtl">>>> \o EvictionChecks(need))
     /\ e' = r.e
     /\ ref' = IF r.err THEN ref ELSE RefPut(vic, Ev.k, Ev.v, Ev.ttl)
     /\ tied' = (tied \/ (need /\ Gone = {} /\ Cardinality(Nearest(e)) > 1))
     /\ drift' = IF LenOK(r.e, tied') THEN drift ELSE Report(drift, scn, l, "ttlmap.set")
  /\ UNCHANGED <<scn, cap, now>> /\ nev' = nev + 1

IncEv ==
  /\ IsEvent("Inc")
  /\ LET stores == Ev.ttl > 0 /\ ~(Ev.k \in DOMAIN e /\ e[Ev.k].exp > now)
         need == stores /\ NeedsVictim(e, cap, Ev.k, Ev.ttl)
         vic == Victim(need)
         r == IncFull(e, cap, now, Ev.k, Ev.v, Ev.ttl, vic)
         wanterr == Ev.ttl <= 0 \/ (Live(Ev.k) /\ ~IsInt(ref[Ev.k].val))
         wantval == IF Live(Ev.k) THEN ref[Ev.k].val + Ev.v ELSE Ev.v IN
     /\ bad' = ReportAll(bad, scn, l, <<
          <<Ev.err = wanterr, IF wanterr THEN "X06.IncrementRefusesBadTtlOrNonInteger" ELSE "X06.IncrementSucceeds">>,
          <<~Ev.err => Ev.val = wantval, IF Live(Ev.k) THEN "X06.IncrementAddsToLiveValue" ELSE "X06.IncrementStartsAfresh">>,
          <<Ev.err => Gone = {}, "X06.RefusedIncrementChangesNothing">> >> \o EvictionChecks(need))
     /\ e' = r.e
     /\ ref' = IF Ev.err \/ wanterr THEN ref ELSE RefPut(vic, Ev.k, wantval, Ev.ttl)
     /\ tied' = (tied \/ (need /\ Gone = {} /\ Cardinality(Nearest(e)) > 1))
     /\ drift' = IF LenOK(r.e, tied') /\ r.err = Ev.err /\ (~r.err => r.val = Ev.val) THEN drift ELSE Report(drift, scn, l, "ttlmap.inc")
  /\ UNCHANGED <<scn, cap, now>> /\ nev' = nev + 1

GetEv ==
  /\ IsEvent("Get")
  /\ LET r == GetOp(e, now, Ev.k) IN
     /\ bad' = ReportAll(bad, scn, l, <<
          <<Ev.found = Live(Ev.k), IF Live(Ev.k) THEN "X06.LiveEntryFound" ELSE "X06.ExpiredOrForgottenEntryAbsent">>,
          <<(Ev.found /\ Live(Ev.k)) => Ev.val = ref[Ev.k].val, "X06.ValueIsLastStored">> >>)
     /\ e' = r.e
     /\ drift' = IF (tied \/ r.found = Ev.found) /\ LenOK(r.e, tied) THEN drift ELSE Report(drift, scn, l, "ttlmap.get")
  /\ UNCHANGED <<scn, cap, now, ref, tied>> /\ nev' = nev + 1

GetIntEv ==
  /\ IsEvent("GetInt")
  /\ LET r == GetIntOp(e, now, Ev.k)
         want == Live(Ev.k) /\ IsInt(ref[Ev.k].val)
         wanterr == Live(Ev.k) /\ ~IsInt(ref[Ev.k].val) IN
     /\ bad' = ReportAll(bad, scn, l, <<
          <<Ev.found = want, "X06.GetIntFindsLiveIntegers">>,
          <<Ev.err = wanterr, "X06.GetIntErrorOnlyForNonInteger">>,
          <<(Ev.found /\ want) => Ev.val = ref[Ev.k].val, "X06.ValueIsLastStored">> >>)
     /\ e' = r.e
     /\ drift' = IF (tied \/ (r.found = Ev.found /\ r.err = Ev.err)) /\ LenOK(r.e, tied) THEN drift ELSE Report(drift, scn, l, "ttlmap.getint")
  /\ UNCHANGED <<scn, cap, now, ref, tied>> /\ nev' = nev + 1

(* RemoveExpired(n): which expired entries went is invisible; the count and the fate of live entries are not *)
RmExpEv ==
  /\ IsEvent("RmExp")
  /\ LET ex == Expired(e, now)
         cnt == Min(Ev.n, Cardinality(ex))
         must == MustBeAmongFirst(e, cnt)
         may == MayBeAmongFirst(e, cnt)
         amb == Cardinality(may) > cnt
         vs == IF amb THEN must \cup PickN(may \ must, cnt - Cardinality(must)) ELSE may IN
     /\ bad' = ReportAll(bad, scn, l, <<
          <<Gone = {}, "X06.RemoveExpiredSparesLive">>,
          <<Ev.removed <= (IF Ev.n < 0 THEN 0 ELSE Ev.n), "X06.RemoveExpiredAtMostN">> >>)
     /\ e' = DropAll(e, vs)
     /\ tied' = (tied \/ amb)
     /\ drift' = IF tied \/ (Ev.removed = cnt /\ LenOK(DropAll(e, vs), tied')) THEN drift ELSE Report(drift, scn, l, "ttlmap.rmexp")
  /\ UNCHANGED <<scn, cap, now, ref>> /\ nev' = nev + 1

(* RemoveLastUsed(n): the n entries nearest to expiry go; live ones among them are seen to go *)
RmLastEv ==
  /\ IsEvent("RmLast")
  /\ LET cnt == Min(Ev.n, Cardinality(DOMAIN e))
         must == MustBeAmongFirst(e, cnt)
         may == MayBeAmongFirst(e, cnt)
         liveBefore == {k \in DOMAIN e : e[k].exp > now}
         \* follow the code: everything that must go, plus the live ones seen to go, plus (if still short) unknown expired ones
         seen == must \cup (Gone \cap DOMAIN e)
         amb == Cardinality(seen) < cnt
         vs == seen \cup PickN({k \in may \ seen : e[k].exp <= now}, cnt - Cardinality(seen)) IN
     /\ bad' = ReportAll(bad, scn, l, <<
          <<tied \/ Gone \subseteq may, "X06.RemoveLastUsedNearestFirst">>,
          <<tied \/ (must \cap liveBefore) \subseteq Gone, "X06.RemoveLastUsedRemovesN">>,
          <<tied \/ Cardinality(Gone) <= cnt, "X06.RemoveLastUsedAtMostN">> >>)
     /\ e' = DropAll(e, vs)
     /\ ref' = [x \in DOMAIN ref \ Gone |-> ref[x]]
     /\ tied' = (tied \/ amb)
     /\ drift' = IF LenOK(DropAll(e, vs), tied') THEN drift ELSE Report(drift, scn, l, "ttlmap.rmlast")
  /\ UNCHANGED <<scn, cap, now>> /\ nev' = nev + 1

End == /\ IsEvent("End")
       /\ JsonSerialize("result.json", [bad |-> bad, drift |-> drift, events |-> nev, lines |-> l])
       /\ UNCHANGED vars
Next == Reset \/ Adv \/ SetEv \/ IncEv \/ GetEv \/ GetIntEv \/ RmExpEv \/ RmLastEv \/ End
Spec == Init /\ [][Next]_vars
=============================================================================
