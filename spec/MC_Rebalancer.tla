---------------------------- MODULE MC_Rebalancer ----------------------------
EXTENDS Rebalancer
CONSTANTS Keys, Weights, InitPools, Cap, Backoffs, Ratings, Advances, MaxReq, MaxAdmin, Horizon, NoCapCheck
VARIABLES backoff, now, srv, timer, gh, viol, nreq, nadm
vars == <<backoff, now, srv, timer, gh, viol, nreq, nadm>>

CurF(s) == [k \in {s[i].k : i \in 1..Len(s)} |-> s[FindSrv(s, k)].cur]
OrigF(s) == [k \in {s[i].k : i \in 1..Len(s)} |-> s[FindSrv(s, k)].orig]

Init == /\ backoff \in Backoffs /\ now = 0 /\ timer = -1
        /\ \E ws \in InitPools : srv = [i \in 1..Len(ws) |-> [k |-> ws[i][1], orig |-> ws[i][2], cur |-> ws[i][2]]]
        /\ gh = [Ghost0 EXCEPT !.orig = OrigF(srv), !.w = CurF(srv)]
        /\ viol = {} /\ nreq = 0 /\ nadm = 0

Upsert(k, w) ==
  /\ nadm < MaxAdmin
  /\ LET s2 == UpsertSrv(srv, k, w)
         r == GhostAdmin(gh, OrigF(s2), CurF(s2)) IN
     /\ srv' = s2 /\ timer' = now - 1 /\ gh' = r.ghost /\ viol' = viol \cup r.viol
  /\ nadm' = nadm + 1 /\ UNCHANGED <<backoff, now, nreq>>
Remove(k) ==
  /\ nadm < MaxAdmin /\ FindSrv(srv, k) # 0
  /\ LET s2 == RemoveSrv(srv, k)
         r == GhostAdmin(gh, OrigF(s2), CurF(s2)) IN
     /\ srv' = s2 /\ timer' = now - 1 /\ gh' = r.ghost /\ viol' = viol \cup r.viol
  /\ nadm' = nadm + 1 /\ UNCHANGED <<backoff, now, nreq>>
Request(rt, rd) ==      \* rt, rd : sequences aligned with srv
  /\ nreq < MaxReq /\ Len(srv) >= 1
  /\ LET a == Adjust(srv, timer, now, backoff, Cap, rt, rd, NoCapCheck)
         rtf == [k \in DOMAIN OrigF(srv) |-> rt[FindSrv(srv, k)]]
         rdf == [k \in DOMAIN OrigF(srv) |-> rd[FindSrv(srv, k)]]
         r == GhostReq(gh, now, rtf, rdf, CurF(a.srv), backoff, Cap) IN
     /\ srv' = a.srv /\ timer' = a.timer /\ gh' = r.ghost /\ viol' = viol \cup r.viol
  /\ nreq' = nreq + 1 /\ UNCHANGED <<backoff, now, nadm>>
Advance(d) == /\ now + d <= Horizon /\ now' = now + d /\ UNCHANGED <<backoff, srv, timer, gh, viol, nreq, nadm>>

Next == \/ \E k \in Keys, w \in Weights : Upsert(k, w)
        \/ \E k \in Keys : Remove(k)
        \/ \E rt \in [1..Len(srv) -> Ratings], rd \in {[i \in 1..Len(srv) |-> TRUE], [i \in 1..Len(srv) |-> i # 1]} : Request(rt, rd)
        \/ \E d \in Advances : Advance(d)
Spec == Init /\ [][Next]_vars
Contract == viol = {}
=============================================================================
