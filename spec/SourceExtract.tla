---------------------------- MODULE SourceExtract ----------------------------
(***************************************************************************)
(* utils.NewExtractor (source.go).  A peer is [fam, a, zone, port]:        *)
(*   fam  in {"v4","v6","v6zone"}, a = address index, port = port index.   *)
(* net/http renders it as  a:port,  [a]:port,  [a%zone]:port.             *)
(* FirstColon = TRUE is the extractor as found: the token is the text up   *)
(* to the first ':' of the rendered form.                                  *)
(* The property is about pairs: equal tokens <=> equal addresses.          *)
(***************************************************************************)
EXTENDS Integers, Sequences, FiniteSets, TLC

(* token as an abstract value: for the repaired extractor it is the address (with zone);           *)
(* splitting at the first ':' yields the whole IPv4 address but only "[" + first group for IPv6.   *)
Token(p, FirstColon) ==
  IF ~FirstColon THEN <<p.fam, p.a, p.zone>>
  ELSE IF p.fam = "v4" THEN <<"v4", p.a, 0>>
  ELSE <<"v6-first-group", p.g1, 0>>          \* g1 = first group of the address (shared by many addresses)
SameAddress(p, q) == p.fam = q.fam /\ p.a = q.a /\ p.zone = q.zone
=============================================================================
