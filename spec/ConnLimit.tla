----------------------------- MODULE ConnLimit -----------------------------
(***************************************************************************)
(* connlimit.ConnLimiter: acquire / release are the two critical sections  *)
(* (under ConnLimiter.mutex); a request is                                 *)
(*     Arrive -> (Rejected | Running -> (Return | Panic))                  *)
(* and the slot is given back by a deferred release in both endings.       *)
(* Contract (C04, C14): a request is admitted iff its source has fewer     *)
(* than Max requests in flight; hence in-flight never exceeds Max, other   *)
(* sources never matter, and at quiescence every slot is free again.       *)
(***************************************************************************)
EXTENDS Integers, FiniteSets, TLC

CONSTANTS Sources, Reqs, MaxLimit,
          CmpGt,            \* mutant: connections > max instead of >=
          ReleaseOnPanic    \* FALSE = mutant: release not deferred

VARIABLES max,       \* configured limit (chosen in Init: one run covers all limits)
          conn,      \* implementation: connections[token]
          st, rsrc,  \* request state / source
          inflight,  \* ghost: admitted and not yet ended, per source (from observations)
          lastOK     \* ghost: was the last decision the one the contract demands?

vars == <<max, conn, st, rsrc, inflight, lastOK>>

Init == /\ max \in 1..MaxLimit
        /\ conn = [s \in Sources |-> 0]
        /\ st = [r \in Reqs |-> "new"] /\ rsrc = [r \in Reqs |-> CHOOSE s \in Sources : TRUE]
        /\ inflight = [s \in Sources |-> 0]
        /\ lastOK = TRUE

Arrive(r, s) ==
  /\ st[r] = "new"
  /\ rsrc' = [rsrc EXCEPT ![r] = s]
  /\ LET full == IF CmpGt THEN conn[s] > max ELSE conn[s] >= max IN
     IF full
       THEN /\ st' = [st EXCEPT ![r] = "rej"]
            /\ lastOK' = (inflight[s] >= max)
            /\ UNCHANGED <<conn, inflight>>
       ELSE /\ st' = [st EXCEPT ![r] = "run"]
            /\ conn' = [conn EXCEPT ![s] = @ + 1]
            /\ lastOK' = (inflight[s] < max)
            /\ inflight' = [inflight EXCEPT ![s] = @ + 1]
  /\ UNCHANGED max

Return(r) ==
  /\ st[r] = "run"
  /\ st' = [st EXCEPT ![r] = "done"]
  /\ conn' = [conn EXCEPT ![rsrc[r]] = @ - 1]
  /\ inflight' = [inflight EXCEPT ![rsrc[r]] = @ - 1]
  /\ UNCHANGED <<max, rsrc, lastOK>>

Panic(r) ==
  /\ st[r] = "run"
  /\ st' = [st EXCEPT ![r] = "done"]
  /\ conn' = IF ReleaseOnPanic THEN [conn EXCEPT ![rsrc[r]] = @ - 1] ELSE conn
  /\ inflight' = [inflight EXCEPT ![rsrc[r]] = @ - 1]
  /\ UNCHANGED <<max, rsrc, lastOK>>

Next == \/ \E r \in Reqs, s \in Sources : Arrive(r, s)
        \/ \E r \in Reqs : Return(r) \/ Panic(r)
Spec == Init /\ [][Next]_vars

(* requests are interchangeable: explore arrivals in id order only *)
Ordered == \A r \in Reqs : st[r] # "new" => \A q \in Reqs : q < r => st[q] # "new"

NeverExceeds == \A s \in Sources : inflight[s] <= max
DecisionExact == lastOK                     \* admitted iff the source had fewer than max in flight
ModelAgrees == \A s \in Sources : conn[s] = inflight[s]
QuiescentFree == (\A r \in Reqs : st[r] \in {"new", "rej", "done"}) => \A s \in Sources : conn[s] = 0
=============================================================================
