----------------------------- MODULE MC_Breaker -----------------------------
(* Exhaustive model: the breaker's critical sections against the contracts   *)
(* of C05 (shielding, legal transitions), C12 (recovery ramp) and C18 (trip  *)
(* iff condition at evaluation points).                                      *)
EXTENDS CircuitBreaker

CONSTANTS Reqs, Codes, Durations, CheckPeriods, Advances, MaxInflight, Horizon, Win,
          ShieldBug,      \* mutant: tripped requests pass when now = until - 1 (boundary flipped)
          RampBug         \* mutant: ramp compares before incrementing (allowed/(allowed+denied) < target)

VARIABLES cfg, now, b, resp, rq,            \* implementation
          g, gnext, viol                    \* ghost (contract)
vars == <<cfg, now, b, resp, rq, g, gnext, viol>>

Ast == [k |-> "neterr", op |-> ">", num |-> 1, den |-> 2]

Init == /\ cfg \in [tps : {1}, fallback : Durations, recovery : Durations, check : CheckPeriods, win : {Win}, ast : {Ast}]
        /\ now = 0 /\ b = InitBreaker /\ resp = <<>>
        /\ rq = [r \in Reqs |-> [st |-> "new"]]
        /\ g = [state |-> "standby", shield |-> 0, rstart |-> 0, a |-> 0, d |-> 0]
        /\ gnext = NoCheck /\ viol = {}

(* responses recorded at the same tick are interchangeable: keep them ordered by code *)
Canon(rs) ==
  LET n == Len(rs)
      key(e) == e.t * 1000 + e.code
      rank(i) == Cardinality({j \in 1..n : key(rs[j]) < key(rs[i]) \/ (key(rs[j]) = key(rs[i]) /\ j < i)}) + 1
  IN [p \in 1..n |-> rs[CHOOSE i \in 1..n : rank(i) = p]]

Inflight == {r \in Reqs : rq[r].st = "run"}

(* ghost transition bookkeeping *)
RECURSIVE ApplyTrans(_, _, _, _)
ApplyTrans(gs, trans, t, c) ==
  IF trans = <<>> THEN gs
  ELSE LET to == Head(trans)
           g1 == CASE to = "recovering" -> [gs EXCEPT !.state = to, !.rstart = t, !.a = 0, !.d = 0]
                   [] to = "standby" -> [gs EXCEPT !.state = to]
                   [] to = "tripped" -> [gs EXCEPT !.state = to, !.shield = t + c.fallback]
       IN ApplyTrans(g1, Tail(trans), t, c)
RECURSIVE IllegalTrans(_, _)
IllegalTrans(from, trans) ==
  IF trans = <<>> THEN FALSE
  ELSE ~LegalMove(from, Head(trans)) \/ IllegalTrans(Head(trans), Tail(trans))

AdmitImpl(tie) ==
  IF ShieldBug /\ b.state = "tripped" /\ now = b.until - 1 THEN [pass |-> TRUE, b |-> b, trans |-> <<>>]
  ELSE IF RampBug /\ b.state = "recovering" /\ now <= b.until
    THEN IF 2 * cfg.recovery * b.a < (now - b.rstart) * (b.a + b.d) \/ (b.a + b.d = 0 /\ now > b.rstart)
           THEN [pass |-> TRUE, b |-> [b EXCEPT !.a = @ + 1], trans |-> <<>>]
           ELSE [pass |-> FALSE, b |-> [b EXCEPT !.d = @ + 1], trans |-> <<>>]
  ELSE Admit(b, now, cfg, tie)

Arrive(r, tie) ==
  /\ rq[r].st = "new" /\ \A q \in Reqs : q < r => rq[q].st # "new"
  /\ Cardinality(Inflight) < MaxInflight
  /\ LET res == AdmitImpl(tie)
         g1 == ApplyTrans(g, res.trans, now, cfg)
         el == now - g1.rstart
         D == cfg.recovery
         inRamp == g1.state = "recovering"
         v == {c \in {"C05.TrippedShields", "C05.StandbyPasses", "C05.LegalTransition", "C12.RecoveryBegins",
                      "C12.StandbyAfterRecovery", "C12.PassWithinRamp", "C12.RefuseOnlyAtRamp"} :
                 CASE c = "C05.TrippedShields" -> now < g.shield /\ res.pass
                   [] c = "C05.StandbyPasses" -> g.state = "standby" /\ ~res.pass
                   [] c = "C05.LegalTransition" -> IllegalTrans(g.state, res.trans)
                   [] c = "C12.RecoveryBegins" -> g.state = "tripped" /\ now >= g.shield /\ (res.trans = <<>> \/ Head(res.trans) # "recovering")
                   [] c = "C12.StandbyAfterRecovery" ->
                        g.state = "recovering" /\ now > g.rstart + D /\ ~(res.pass /\ g1.state = "standby")
                   [] c = "C12.PassWithinRamp" -> inRamp /\ res.pass /\ ~(2 * D * (g1.a + 1) <= el * (g1.a + g1.d + 1))
                   [] c = "C12.RefuseOnlyAtRamp" -> inRamp /\ ~res.pass /\ ~(2 * D * (g1.a + 1) >= el * (g1.a + g1.d + 1))}
     IN /\ b' = res.b
        /\ rq' = [rq EXCEPT ![r] = [st |-> IF res.pass THEN "run" ELSE "fb"]]
        /\ g' = IF inRamp THEN (IF res.pass THEN [g1 EXCEPT !.a = @ + 1] ELSE [g1 EXCEPT !.d = @ + 1]) ELSE g1
        /\ viol' = viol \cup v
  /\ UNCHANGED <<cfg, now, resp, gnext>>

Finish(r, code) ==
  /\ rq[r].st = "run"
  /\ LET res == Complete(b, resp, now, code, 0, cfg)
         gr1 == Append(resp, [t |-> now, code |-> code, lat |-> 0])   \* the responses the contract has seen since the last trip
         due == gnext = NoCheck \/ now > gnext
         tie == gnext # NoCheck /\ now = gnext
         det == ~Ambiguous(gr1, now, cfg)
         ci == Eval(cfg.ast, gr1, now, cfg, "inner")
         tripped == res.trans # <<>>
         v == {c \in {"C05.LegalTransition", "C18.TripWhenConditionHolds", "C18.NoSpuriousTrip"} :
                 CASE c = "C05.LegalTransition" -> IllegalTrans(g.state, res.trans)
                   [] c = "C18.TripWhenConditionHolds" -> due /\ g.state # "tripped" /\ det /\ ci /\ ~tripped
                   [] c = "C18.NoSpuriousTrip" -> tripped /\ (~(due \/ tie) \/ g.state = "tripped" \/ (det /\ ~ci))}
     IN /\ b' = res.b /\ resp' = Canon(PruneResp(res.resp, now, cfg))
        /\ g' = ApplyTrans(g, res.trans, now, cfg)
        /\ gnext' = IF due THEN now + cfg.check ELSE gnext
        /\ viol' = viol \cup v
  /\ rq' = [rq EXCEPT ![r].st = "done"]
  /\ UNCHANGED <<cfg, now>>

Advance(d) == /\ now + d <= Horizon /\ now' = now + d /\ UNCHANGED <<cfg, b, resp, rq, g, gnext, viol>>

Next == \/ \E r \in Reqs, tie \in BOOLEAN : Arrive(r, tie)
        \/ \E r \in Reqs, c \in Codes : Finish(r, c)
        \/ \E d \in Advances : Advance(d)
Spec == Init /\ [][Next]_vars

Contract == viol = {}
NoC05 == ~\E c \in viol : c \in {"C05.TrippedShields", "C05.StandbyPasses", "C05.LegalTransition"}
NoC12 == ~\E c \in viol : c \in {"C12.RecoveryBegins", "C12.StandbyAfterRecovery", "C12.PassWithinRamp", "C12.RefuseOnlyAtRamp"}
NoC18 == ~\E c \in viol : c \in {"C18.TripWhenConditionHolds", "C18.NoSpuriousTrip"}
(* the fraction passed since recovery began never exceeds the ramp, at every instant *)
RampInvariant == g.state = "recovering" => 2 * cfg.recovery * g.a <= (now - g.rstart) * (g.a + g.d)
ModelAgrees == g.state = b.state
=============================================================================
