------------------------------ MODULE MC_Stack ------------------------------
EXTENDS Stack
CONSTANTS MaxDepth, Broken
VARIABLES stack, script, o
vars == <<stack, script, o>>
Layers == [name : Names, mode : {"pass", "intervene"}]
Valid(s) == /\ \A k \in 1..Len(s) : s[k].mode = "intervene" => CanIntervene(s[k].name)
            /\ Cardinality({k \in 1..Len(s) : s[k].mode = "intervene"}) <= 1
Stacks == UNION {{s \in [1..d -> Layers] : Valid(s)} : d \in 1..MaxDepth}
Init == /\ stack \in Stacks
        /\ script \in [status : {0, 200, 404}, flush : BOOLEAN, hijack : BOOLEAN]
        /\ o = Outcome(stack, script, Broken)
Next == UNCHANGED vars
Spec == Init /\ [][Next]_vars
Contract == ContractOK(stack, script, o)
=============================================================================
