---------------------------- MODULE MC_RTMetrics ----------------------------
(* Exhaustive model: two collectors, records / appends / exports / resets in any order, a short window. *)
EXTENDS RTMetrics
CONSTANTS N, B, Period, Codes, Lats, Advances, MaxOps, Horizon
VARIABLES now, ms, nops, last,
          aged    \* ghost: collectors that hold a status counter CLONED in by an Append (see AsFoundAgeSkew)
vars == <<now, ms, nops, last, aged>>
Names == {"m1", "m2"}
C == [n |-> N, r |-> 1, tps |-> 1, off |-> 0, u0 |-> 0, asis |-> FALSE]

Init == now = 0 /\ ms = [x \in Names |-> FreshM(N, B)] /\ nops = 0 /\ last = [op |-> "none"] /\ aged = {}

Rec(x, code, lat) == /\ nops < MaxOps /\ ms' = [ms EXCEPT ![x] = RecordM(@, now, code, lat, C, Period)]
                     /\ last' = [op |-> "rec"] /\ nops' = nops + 1 /\ UNCHANGED <<now, aged>>
App(x, y) == /\ nops < MaxOps /\ x # y
             /\ ms' = [ms EXCEPT ![x] = AppendM(@, ms[y], now, C)]
             /\ last' = [op |-> "app", dst |-> x, before |-> Total(ms[x], now, C), add |-> Total(ms[y], now, C),
                         bcodes |-> CodeCounts(ms[x], now, C), acodes |-> CodeCounts(ms[y], now, C)]
             /\ aged' = IF (DOMAIN ms[y].codes \ DOMAIN ms[x].codes) # {} \/ y \in aged THEN aged \cup {x} ELSE aged
             /\ nops' = nops + 1 /\ UNCHANGED now
Exp(x, y) == /\ nops < MaxOps /\ x # y         \* y becomes an export of x
             /\ ms' = [ms EXCEPT ![y] = ExportM(ms[x], now, C)]
             /\ last' = [op |-> "exp", src |-> x, dst |-> y] /\ nops' = nops + 1 /\ UNCHANGED now
             /\ aged' = IF x \in aged THEN aged \cup {y} ELSE aged \ {y}
Rst(x) == /\ nops < MaxOps /\ ms' = [ms EXCEPT ![x] = ResetM(@, now, N)]
          /\ last' = [op |-> "rst", dst |-> x] /\ nops' = nops + 1 /\ aged' = aged \ {x} /\ UNCHANGED now
Adv(d) == now + d <= Horizon /\ now' = now + d /\ last' = [op |-> "adv"] /\ UNCHANGED <<ms, nops, aged>>

Next == \/ \E x \in Names, code \in Codes, lat \in Lats : Rec(x, code, lat)
        \/ \E x, y \in Names : App(x, y) \/ Exp(x, y)
        \/ \E x \in Names : Rst(x)
        \/ \E d \in Advances : Adv(d)
Spec == Init /\ [][Next]_vars

(* As found: Append adds the other collector's total (and every status it already knows) to the CURRENT bucket, but a    *)
(* status it did not know yet is CLONED in with the other collector's bucket ages.  From then on the total and the      *)
(* per-status counts of that collector age differently, and "total = sum over the statuses" can fail (TLC's             *)
(* counterexample: m2 records a 200; one second later m1.Append(m2); one more second later, with a two-second window,   *)
(* m1 reports total 1 and no status at all).  The invariant is therefore stated for collectors without such a clone;   *)
(* AsFoundAgeSkew, run as a negative configuration, keeps the counterexample on record.                                *)
AlwaysConsistent == \A x \in Names \ aged : Consistent(ms[x], now, C)
AsFoundAgeSkew == \A x \in Names : Consistent(ms[x], now, C)
GetOr0(f, k) == IF k \in DOMAIN f THEN f[k] ELSE 0
AppendAddsCounts ==
  last.op = "app" =>
     /\ Total(ms[last.dst], now, C) = last.before + last.add
     /\ \A k \in DOMAIN last.bcodes \cup DOMAIN last.acodes :
           GetOr0(CodeCounts(ms[last.dst], now, C), k) = GetOr0(last.bcodes, k) + GetOr0(last.acodes, k)
ExportIsSnapshot ==
  last.op = "exp" => /\ Total(ms[last.dst], now, C) = Total(ms[last.src], now, C)
                     /\ CodeCounts(ms[last.dst], now, C) = CodeCounts(ms[last.src], now, C)
                     /\ HAll(ms[last.dst].hist) = HAll(ms[last.src].hist)
ResetEmpties ==
  last.op = "rst" => Total(ms[last.dst], now, C) = 0 /\ NetErr(ms[last.dst], now, C) = 0 /\ HAll(ms[last.dst].hist) = <<>>
                     /\ CodeCounts(ms[last.dst], now, C) = <<>>
(* nothing older than the window is counted: after N idle seconds every counter reads 0 *)
WindowForgets == \A x \in Names : Total(ms[x], now + N, C) = 0
=============================================================================
