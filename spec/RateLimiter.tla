---------------------------- MODULE RateLimiter ----------------------------
(***************************************************************************)
(* Implementation-shaped model of ratelimit (bucket.go, bucketset.go,      *)
(* tokenlimiter.go) and of the TTL map it keeps bucket sets in             *)
(* (holsterv4/collections/ttlmap.go).  Time is in integer ticks; tps is    *)
(* ticks per second (the TTL map works in whole seconds).                  *)
(*                                                                         *)
(* A rate is [p, a, b] = period (ticks), average, burst.  timePerToken is  *)
(* p \div a exactly as in newTokenBucket (integer division).               *)
(***************************************************************************)
EXTENDS Integers, Sequences, FiniteSets, TLC

Min(x, y) == IF x < y THEN x ELSE y
Max(x, y) == IF x > y THEN x ELSE y
Tpt(r) == r.p \div r.a

(* tokenBucket.updateAvailableTokens *)
Refill(bk, r, now) ==
  LET tp == Tpt(r) IN
  IF tp = 0 THEN bk
  ELSE LET tok == bk.avail + ((now - bk.last) \div tp)
           b1 == IF tok # bk.avail THEN [avail |-> tok, last |-> now] ELSE bk
       IN [b1 EXCEPT !.avail = Min(@, r.b)]

(* tokenBucket.consume; DebitFirst is a mutant that debits before the check *)
ConsumeOne(bk, r, now, n) ==
  LET b1 == Refill(bk, r, now) IN
  IF n > r.b THEN [bk |-> b1, res |-> "error", delay |-> -1, used |-> 0]
  ELSE IF b1.avail < n THEN [bk |-> b1, res |-> "wait", delay |-> (n - b1.avail) * Tpt(r), used |-> 0]
  ELSE [bk |-> [b1 EXCEPT !.avail = @ - n], res |-> "ok", delay |-> 0, used |-> n]

(* TokenBucketSet.Consume: all buckets are asked, then all are rolled back unless every one agreed. *)
(* NoRollback is a mutant (roll-back missing).                                                      *)
ConsumeSet(bks, rates, now, n, NoRollback) ==
  LET one == [i \in 1..Len(rates) |-> ConsumeOne(bks[i], rates[i], now, n)]
      anyErr == \E i \in 1..Len(rates) : one[i].res = "error"
      RECURSIVE MaxDelay(_)
      MaxDelay(i) == IF i = 0 THEN 0 ELSE Max(one[i].delay, MaxDelay(i - 1))
      md == MaxDelay(Len(rates))
      ok == ~anyErr /\ md = 0
      after == [i \in 1..Len(rates) |->
                  IF ok \/ NoRollback THEN one[i].bk
                  ELSE [one[i].bk EXCEPT !.avail = @ + one[i].used]]
  IN [bks |-> after,
      out |-> IF anyErr THEN "error" ELSE IF md > 0 THEN "limit" ELSE "ok",
      delay |-> IF anyErr THEN -1 ELSE md]

FreshSet(rates, now) == [i \in 1..Len(rates) |-> [avail |-> rates[i].b, last |-> now]]

MaxPeriod(rates) == LET RECURSIVE M(_) M(i) == IF i = 0 THEN 0 ELSE Max(rates[i].p, M(i - 1)) IN M(Len(rates))
TtlSec(rates, tps) == (MaxPeriod(rates) \div tps) * 10 + 1

(* the TTL map: tracked is a function source -> [exp, bks];  exp in whole seconds *)
Expired(e, now, tps) == e.exp <= now \div tps
MinExp(tracked) == CHOOSE m \in {tracked[s].exp : s \in DOMAIN tracked} :
                      \A s \in DOMAIN tracked : m <= tracked[s].exp
Victims(tracked) == {s \in DOMAIN tracked : tracked[s].exp = MinExp(tracked)}
Drop(tracked, s) == [x \in DOMAIN tracked \ {s} |-> tracked[x]]
Put(tracked, s, e) == [x \in DOMAIN tracked \cup {s} |-> IF x = s THEN e ELSE tracked[x]]

(* TokenLimiter.consumeRates for source s; victim is the entry evicted if the map is full.          *)
(* RefreshOnAccess = TRUE is the repaired code (the entry lifetime is renewed by every request of   *)
(* the source), FALSE the code as found (lifetime fixed at creation).                               *)
ConsumeRates(tracked, rates, cap, tps, now, s, n, victim, RefreshOnAccess, NoRollback) ==
  LET live == s \in DOMAIN tracked /\ ~Expired(tracked[s], now, tps)
      t0 == IF s \in DOMAIN tracked /\ ~live THEN Drop(tracked, s) ELSE tracked     \* Get deletes an expired entry
      t1 == IF live \/ Cardinality(DOMAIN t0) < cap THEN t0 ELSE Drop(t0, victim)   \* set() frees space
      bks0 == IF live THEN tracked[s].bks ELSE FreshSet(rates, now)
      exp0 == IF live /\ ~RefreshOnAccess THEN tracked[s].exp ELSE now \div tps + TtlSec(rates, tps)
      c == ConsumeSet(bks0, rates, now, n, NoRollback)
  IN [tracked |-> Put(t1, s, [exp |-> exp0, bks |-> c.bks]), out |-> c.out, delay |-> c.delay,
      fresh |-> ~live, evicted |-> ~live /\ Cardinality(DOMAIN t0) >= cap]

NeedsVictim(tracked, cap, tps, now, s) ==
  LET live == s \in DOMAIN tracked /\ ~Expired(tracked[s], now, tps)
      t0 == IF s \in DOMAIN tracked /\ ~live THEN Drop(tracked, s) ELSE tracked
  IN ~live /\ Cardinality(DOMAIN t0) >= cap /\ cap > 0
VictimsFor(tracked, tps, now, s) ==
  LET live == s \in DOMAIN tracked /\ ~Expired(tracked[s], now, tps)
      t0 == IF s \in DOMAIN tracked /\ ~live THEN Drop(tracked, s) ELSE tracked
  IN Victims(t0)

(* ------------------ contract: admission potential (C03) ------------------ *)
(* pot is scaled by the average: admitting amount n costs n * p, time d pays d * a;               *)
(* the statement "admitted in any interval of length T <= burst + T/(p/a) + 1" is equivalent to   *)
(* pot <= (b + 1) * p after every admission.                                                      *)
(* when the average divides the period the same quantity is kept divided by the average (ticks of debt   *)
(* instead of token-periods): identical comparisons, but byte-sized amounts on daily periods stay      *)
(* within TLC's 32-bit integers                                                                        *)
PotAfter(pot, r, d, n) == IF r.p % r.a = 0 THEN Max(pot - d, 0) + n * (r.p \div r.a)
                          ELSE Max(pot - d * r.a, 0) + n * r.p
PotBound(r) == IF r.p % r.a = 0 THEN (r.b + 1) * (r.p \div r.a) ELSE (r.b + 1) * r.p
=============================================================================
