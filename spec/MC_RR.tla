------------------------------ MODULE MC_RR ------------------------------
(* Exhaustive model: rr.go critical sections against the C01/C02 contract. *)
EXTENDS RoundRobin

CONSTANTS Keys, Variants, MaxW, MaxAdmin, ExtraPicks,
          StrictCmp,     \* mutant: weight > currentWeight
          ZeroGuard      \* TRUE: nextServer refuses when every weight is 0 (repaired code)

VARIABLES pool, idx, cw,      \* implementation state
          ref, picks, last,   \* ghost: reference weights, selections since last change, last result
          nadmin

vars == <<pool, idx, cw, ref, picks, last, nadmin>>

Init == /\ pool = <<>> /\ idx = -1 /\ cw = 0
        /\ ref = <<>>                       \* empty function
        /\ picks = <<>> /\ last = [op |-> "init", err |-> "ok", k |-> "", okAdmin |-> TRUE]
        /\ nadmin = 0

(* reference semantics of the admin calls, as the property defines them *)
RefUpsert(r, k, w) ==
  IF k \in DOMAIN r
    THEN IF w = NoW THEN r ELSE [r EXCEPT ![k] = w]
    ELSE [x \in DOMAIN r \cup {k} |->
            IF x = k THEN (IF w = NoW \/ w = 0 THEN DefaultWeight ELSE w) ELSE r[x]]
RefRemove(r, k) == [x \in DOMAIN r \ {k} |-> r[x]]

Upsert(k, v, w) ==
  /\ nadmin < MaxAdmin
  /\ pool' = UpsertPool(pool, k, v, w)
  /\ idx' = -1 /\ cw' = 0
  /\ ref' = RefUpsert(ref, k, w)
  /\ picks' = <<>>
  /\ last' = [op |-> "upsert", err |-> "ok", k |-> k, okAdmin |-> TRUE]
  /\ nadmin' = nadmin + 1

Remove(k) ==
  /\ nadmin < MaxAdmin
  /\ LET i == FindKey(pool, k) IN
     IF i = 0
       THEN /\ UNCHANGED <<pool, idx, cw, ref, picks>>
            /\ last' = [op |-> "remove", err |-> "notfound", k |-> k, okAdmin |-> k \notin DOMAIN ref]
       ELSE /\ pool' = RemoveAt(pool, i)
            /\ idx' = -1 /\ cw' = 0
            /\ ref' = RefRemove(ref, k)
            /\ picks' = <<>>
            /\ last' = [op |-> "remove", err |-> "ok", k |-> k, okAdmin |-> k \in DOMAIN ref]
  /\ nadmin' = nadmin + 1

Pick ==
  /\ Len(picks) < 2 * RefW(ref) + ExtraPicks
  /\ LET r == IF ZeroGuard /\ Len(pool) > 0 /\ MaxWeight(pool) = 0
                THEN [err |-> "allzero", idx |-> idx, cw |-> cw]
                ELSE PickResult(pool, idx, cw, StrictCmp) IN
     /\ idx' = r.idx /\ cw' = r.cw
     /\ IF r.err = "ok"
          THEN /\ picks' = Append(picks, pool[r.idx + 1].k)
               /\ last' = [op |-> "pick", err |-> "ok", k |-> pool[r.idx + 1].k, okAdmin |-> TRUE]
          ELSE /\ picks' = picks
               /\ last' = [op |-> "pick", err |-> r.err, k |-> "", okAdmin |-> TRUE]
  /\ UNCHANGED <<pool, ref, nadmin>>

Next == \/ Pick
        \/ \E k \in Keys, v \in Variants, w \in (0..MaxW) \cup {NoW} : Upsert(k, v, w)
        \/ \E k \in Keys : Remove(k)

Spec == Init /\ [][Next]_vars

(* ------------------------- contract: C02 ------------------------- *)
MembersMatch == /\ PoolKeys(pool) = DOMAIN ref
                /\ \A k \in DOMAIN ref : PoolWeight(pool, k) = ref[k]
AdminResultOK == last.okAdmin      \* remove of unknown fails and changes nothing; known succeeds
RoutedIsMember ==
  last.op = "pick" =>
     /\ (last.err = "ok") <=> RefServable(ref)
     /\ last.err = "ok" => last.k \in DOMAIN ref /\ ref[last.k] > 0
NoDivergence == last.err # "diverge"

(* ------------------------- contract: C01 ------------------------- *)
Count(s, k, lo, hi) == Cardinality({i \in lo..hi : s[i] = k})
(* literal statement: every window of W consecutive selections is exact *)
LiteralExact ==
  LET W == RefW(ref) g == RefGcd(ref) IN
  RefServable(ref) =>
    \A s \in 1..(Len(picks) - W + 1) :
       \A k \in DOMAIN ref : Count(picks, k, s, s + W - 1) = ref[k] \div g
(* incremental form used by the trace contract *)
IncrementalExact ==
  LET W == RefW(ref) g == RefGcd(ref) n == Len(picks) IN
  RefServable(ref) =>
    /\ \A k \in DOMAIN ref : Count(picks, k, 1, IF n < W THEN n ELSE W) <= ref[k] \div g
    /\ n >= W => \A k \in DOMAIN ref : Count(picks, k, 1, W) = ref[k] \div g
    /\ \A i \in (W + 1)..n : picks[i] = picks[i - W]
(* prefix-closed form of the literal statement: no window can be completed to an exact one otherwise *)
LiteralPrefix ==
  LET W == RefW(ref) g == RefGcd(ref) n == Len(picks) IN
  RefServable(ref) =>
    /\ LiteralExact
    /\ \A k \in DOMAIN ref : \A s \in 1..n : Count(picks, k, s, IF s + W - 1 < n THEN s + W - 1 ELSE n) <= ref[k] \div g
FormsAgree == LiteralPrefix <=> IncrementalExact
ZeroNeverChosen == \A i \in 1..Len(picks) : ref[picks[i]] > 0
=============================================================================
