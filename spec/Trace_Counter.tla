---------------------------- MODULE Trace_Counter ----------------------------
(* Trace specification for memmetrics.RollingCounter / RatioCounter (C17).    *)
EXTENDS RollingCounter, TraceBase

VARIABLES l, scn, c, now, va, la, vb, lb, loga, logb, bad, drift, nev
vars == <<l, scn, c, now, va, la, vb, lb, loga, logb, bad, drift, nev>>
Ev == Log[l]
IsEvent(e) == l <= Len(Log) /\ Log[l].e = e /\ l' = l + 1

Init == /\ l = 1 /\ scn = "" /\ c = [n |-> 1, r |-> 1, tps |-> 1, off |-> 0, u0 |-> 0, asis |-> FALSE]
        /\ now = 0 /\ va = <<0>> /\ la = Never /\ vb = <<0>> /\ lb = Never /\ loga = <<>> /\ logb = <<>>
        /\ bad = <<>> /\ drift = <<>> /\ nev = 0

Reset == /\ IsEvent("Reset")
         /\ scn' = Ev.scn
         /\ c' = [n |-> Ev.cfg.n, r |-> Ev.cfg.r, tps |-> Ev.cfg.tps, off |-> Ev.cfg.off, u0 |-> 0, asis |-> FALSE]
         /\ now' = 0 /\ va' = Zeros(Ev.cfg.n) /\ la' = Never /\ vb' = Zeros(Ev.cfg.n) /\ lb' = Never
         /\ loga' = <<>> /\ logb' = <<>>
         /\ UNCHANGED <<bad, drift>> /\ nev' = nev + 1

Adv == /\ IsEvent("Adv") /\ now' = now + Ev.d
       /\ UNCHANGED <<scn, c, va, la, vb, lb, loga, logb, bad, drift>> /\ nev' = nev + 1

Inc == /\ IsEvent("Inc")
       /\ IF Ev.which = "a"
            THEN /\ va' = IncVals(va, la, now, Ev.v, c) /\ la' = now
                 /\ loga' = Append(Prune(loga, now, c), [t |-> now, v |-> Ev.v])
                 /\ UNCHANGED <<vb, lb, logb>>
            ELSE /\ vb' = IncVals(vb, lb, now, Ev.v, c) /\ lb' = now
                 /\ logb' = Append(Prune(logb, now, c), [t |-> now, v |-> Ev.v])
                 /\ UNCHANGED <<va, la, loga>>
       /\ UNCHANGED <<scn, c, now, bad, drift>> /\ nev' = nev + 1

(* a read: ca / cb are Count() of the two counters, rok = (Ratio() = ca/(ca+cb), or 0 when both are 0) *)
Count == /\ IsEvent("Count")
         /\ bad' = ReportAll(bad, scn, l, <<
               <<LowerSum(loga, now, c) <= Ev.ca, "C17.RecentNeverLost">>,
               <<Ev.ca <= UpperSum(loga, now, c), "C17.OldAgesOut">>,
               <<LowerSum(logb, now, c) <= Ev.cb, "C17.RecentNeverLost">>,
               <<Ev.cb <= UpperSum(logb, now, c), "C17.OldAgesOut">>,
               <<Ev.rok, "C17.RatioIsRatioOfCounts">> >>)
         /\ drift' = IF CountOf(va, la, now, c) # Ev.ca \/ CountOf(vb, lb, now, c) # Ev.cb
                       THEN Report(drift, scn, l, "RollingCounter.Count") ELSE drift
         /\ va' = Cleanup(va, la, now, c) /\ vb' = Cleanup(vb, lb, now, c)
         /\ UNCHANGED <<scn, c, now, la, lb, loga, logb>> /\ nev' = nev + 1

(* b becomes a clone of a: Clone expires a's old buckets, then copies values and checkpoint; from here on the two counters   *)
(* live separate lives, each with the increments it has seen so far                                                     *)
Clone == /\ IsEvent("Clone")
         /\ va' = Cleanup(va, la, now, c) /\ vb' = Cleanup(va, la, now, c) /\ lb' = la /\ logb' = loga
         /\ UNCHANGED <<scn, c, now, la, loga, bad, drift>> /\ nev' = nev + 1

CReset == /\ IsEvent("CReset")
          /\ va' = Zeros(c.n) /\ la' = Never /\ vb' = Zeros(c.n) /\ lb' = Never /\ loga' = <<>> /\ logb' = <<>>
          /\ UNCHANGED <<scn, c, now, bad, drift>> /\ nev' = nev + 1

End == /\ IsEvent("End")
       /\ JsonSerialize("result.json", [bad |-> bad, drift |-> drift, events |-> nev, lines |-> l])
       /\ UNCHANGED vars
Next == Reset \/ Adv \/ Inc \/ Count \/ Clone \/ CReset \/ End
Spec == Init /\ [][Next]_vars
=============================================================================
