------------------------------ MODULE Gen_Rebal ------------------------------
EXTENDS MC_Rebalancer, Json
CONSTANT Depth
VARIABLE hist
GInit == Init /\ hist = <<[op |-> "init", pool |-> [i \in 1..Len(srv) |-> [k |-> srv[i].k, w |-> srv[i].orig]], backoff |-> backoff]>>
GNext == /\ Len(hist) < Depth
         /\ \/ \E k \in Keys, w \in Weights : Upsert(k, w) /\ hist' = Append(hist, [op |-> "upsert", k |-> k, w |-> w])
            \/ \E k \in Keys : Remove(k) /\ Len(srv) > 1 /\ hist' = Append(hist, [op |-> "remove", k |-> k])
            \/ \E rt \in [1..Len(srv) -> Ratings], rd \in {[i \in 1..Len(srv) |-> TRUE], [i \in 1..Len(srv) |-> i # 1]} :
                 Request(rt, rd) /\ hist' = Append(hist, [op |-> "req", meters |-> [i \in 1..Len(srv) |-> [k |-> srv[i].k, r |-> rt[i], ready |-> rd[i]]]])
            \/ \E d \in Advances : Advance(d) /\ hist' = Append(hist, [op |-> "adv", d |-> d])
GSpec == GInit /\ [][GNext]_<<vars, hist>>
Emit == Len(hist) = Depth => PrintT(ToJson(hist))
=============================================================================
