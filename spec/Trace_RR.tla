----------------------------- MODULE Trace_RR -----------------------------
(***************************************************************************)
(* Trace specification for the balancer (subject "rr") and the balancer    *)
(* managed through the rebalancer (subject "rb"; "rba": adjusting).  Every *)
(* recorded event of the real code is consumed in order; two layers:       *)
(*   contract  (bad)   - clauses of C01 / C02 / C11 over observations only *)
(*   impl      (drift) - the rr.go model of RoundRobin.tla predicts the    *)
(*                       observed selection (subject rr only)              *)
(***************************************************************************)
EXTENDS RoundRobin, TraceBase

VARIABLES l, scn, subject,
          pool, idx, cw,            \* implementation model
          ref, picks, cnt,          \* contract ghosts
          bad, drift, nev,
          rfz                       \* a refused administration call happened since the last successful one

vars == <<l, scn, subject, pool, idx, cw, ref, picks, cnt, bad, drift, nev, rfz>>

Ev == Log[l]
IsEvent(e) == l <= Len(Log) /\ Log[l].e = e /\ l' = l + 1

EmptyFn == <<>>

Init == /\ l = 1 /\ scn = "" /\ subject = "rr"
        /\ pool = <<>> /\ idx = -1 /\ cw = 0
        /\ ref = EmptyFn /\ picks = <<>> /\ cnt = EmptyFn
        /\ bad = <<>> /\ drift = <<>> /\ nev = 0 /\ rfz = FALSE

Reset ==
  /\ IsEvent("Reset")
  /\ scn' = Ev.scn /\ subject' = Ev.cfg.subject
  /\ pool' = <<>> /\ idx' = -1 /\ cw' = 0
  /\ ref' = EmptyFn /\ picks' = <<>> /\ cnt' = EmptyFn
  /\ UNCHANGED <<bad, drift>> /\ nev' = nev + 1 /\ rfz' = FALSE

(* observed members: sequence of [k, v, w] *)
MemKeys(m) == {m[i].k : i \in 1..Len(m)}
MemW(m, k) == LET i == CHOOSE j \in 1..Len(m) : m[j].k = k IN m[i].w
MemDistinct(m) == \A i, j \in 1..Len(m) : i # j => m[i].k # m[j].k
(* subject "rba" is the rebalancer with meters that make it adjust weights all the time: the effective weights then differ *)
(* from the configured ones by design, but a drained server stays drained and a serving one keeps a positive weight       *)
MembersOK(m, r) == /\ MemKeys(m) = DOMAIN r
                   /\ MemDistinct(m)
                   /\ \A k \in DOMAIN r : IF subject = "rba" THEN (MemW(m, k) = 0) = (r[k] = 0) ELSE MemW(m, k) = r[k]
NotMutated(m) == \A i \in 1..Len(m) : m[i].k # "?"

RefUpsertObs(r, k, w, m) ==
  IF k \in DOMAIN r
    THEN IF w = NoW THEN r ELSE [r EXCEPT ![k] = w]
    ELSE [x \in DOMAIN r \cup {k} |->
            IF x = k
              THEN (IF w = NoW \/ w = 0
                      THEN (IF k \in MemKeys(m) /\ MemW(m, k) >= 0 THEN MemW(m, k) ELSE DefaultWeight)
                      ELSE w)
              ELSE r[x]]
RefRemove(r, k) == [x \in DOMAIN r \ {k} |-> r[x]]

ZeroCnt(r) == [k \in DOMAIN r |-> 0]

Upsert ==
  /\ IsEvent("Upsert")
  /\ LET r2 == RefUpsertObs(ref, Ev.k, Ev.w, Ev.members) IN
     /\ ref' = r2
     /\ bad' = ReportAll(bad, scn, l, <<
            <<~Ev.err, "C02.UpsertSucceeds">>,
            <<NotMutated(Ev.members), "C02.PoolNotMutated">>,
            <<MembersOK(Ev.members, r2), "C02.MembersMatchAdminCalls">> >>)
     /\ cnt' = ZeroCnt(r2)
  /\ picks' = <<>>
  /\ pool' = UpsertPool(pool, Ev.k, Ev.v, Ev.w) /\ idx' = -1 /\ cw' = 0
  /\ UNCHANGED <<scn, subject, drift>> /\ nev' = nev + 1 /\ rfz' = FALSE

(* an update call whose option list ends with an invalid option: it must fail; whatever part of it was applied  *)
(* is read back (the property does not say), and from then on the observed weights are the pool               *)
UpsertBad ==
  /\ IsEvent("UpsertBad")
  /\ LET r2 == [k \in MemKeys(Ev.members) |-> MemW(Ev.members, k)] IN
     /\ ref' = r2
     /\ bad' = ReportAll(bad, scn, l, <<
            <<Ev.err, "C02.InvalidUpsertFails">>,
            <<NotMutated(Ev.members), "C02.PoolNotMutated">>,
            <<MemKeys(Ev.members) = DOMAIN ref \/ MemKeys(Ev.members) = DOMAIN ref \cup {Ev.k}, "C02.MembersMatchAdminCalls">> >>)
     \* a rejected call that changed nothing is not a pool change: the windows of C01 run on across it
     /\ cnt' = IF r2 = ref THEN cnt ELSE ZeroCnt(r2)
     /\ picks' = IF r2 = ref THEN picks ELSE <<>>
  /\ pool' = [i \in 1..Len(Ev.members) |-> [k |-> Ev.members[i].k, v |-> Ev.members[i].v, w |-> Ev.members[i].w]]
  /\ UNCHANGED <<idx, cw>>          \* the failing path does not reset the iterator
  /\ rfz' = (IF [k \in MemKeys(Ev.members) |-> MemW(Ev.members, k)] = ref /\ Ev.err THEN TRUE ELSE FALSE)
  /\ UNCHANGED <<scn, subject, drift>> /\ nev' = nev + 1

(* an add that the rebalancer refused (it could not create a meter for the server): nothing may have changed *)
UpsertFail ==
  /\ IsEvent("UpsertFail")
  /\ bad' = ReportAll(bad, scn, l, <<
         <<Ev.k \notin DOMAIN ref, "C02.UpdateOfKnownServerSucceeds">>,
         <<NotMutated(Ev.members), "C02.PoolNotMutated">>,
         <<MembersOK(Ev.members, ref), "C02.RefusedAddLeavesPoolUnchanged">> >>)
  /\ UNCHANGED <<scn, subject, pool, idx, cw, ref, picks, cnt, drift>> /\ nev' = nev + 1 /\ rfz' = TRUE

Remove ==
  /\ IsEvent("Remove")
  /\ LET known == Ev.k \in DOMAIN ref
         r2 == IF known THEN RefRemove(ref, Ev.k) ELSE ref IN
     /\ ref' = r2
     /\ bad' = ReportAll(bad, scn, l, <<
            <<Ev.err = ~known, IF known THEN "C02.RemoveKnownSucceeds" ELSE "C02.RemoveUnknownFails">>,
            <<NotMutated(Ev.members), "C02.PoolNotMutated">>,
            <<MembersOK(Ev.members, r2), IF known THEN "C02.MembersMatchAdminCalls" ELSE "C02.RemoveUnknownChangesNothing">> >>)
     /\ cnt' = IF known THEN ZeroCnt(r2) ELSE cnt
     /\ picks' = IF known THEN <<>> ELSE picks
  /\ LET i == FindKey(pool, Ev.k) IN
     IF i = 0 THEN UNCHANGED <<pool, idx, cw>>
     ELSE pool' = RemoveAt(pool, i) /\ idx' = -1 /\ cw' = 0
  /\ rfz' = (Ev.k \notin DOMAIN ref /\ Ev.err)
  /\ UNCHANGED <<scn, subject, drift>> /\ nev' = nev + 1

(* contract evaluation of one rotation selection of key k (C01 + C02) *)
SelChecks(k) ==
  LET W == RefW(ref) g == RefGcd(ref) n == Len(picks) + 1
      member == k \in DOMAIN ref
      c == IF member /\ k \in DOMAIN cnt THEN cnt[k] + 1 ELSE 1
  IN <<
    <<RefServable(ref), "C02.NoTrafficWhenUnservable">>,
    <<member, "C02.RoutedToMember">>,
    <<member => ref[k] > 0, "C02.DrainedServerGetsNoTraffic">>,
    <<member => ref[k] > 0, "C01.ZeroWeightNeverChosen">>,
    <<(member /\ RefServable(ref) /\ ref[k] > 0 /\ n <= W) => c <= ref[k] \div g, "C01.WindowExact">>,
    <<(member /\ RefServable(ref) /\ n = W) =>
          \A x \in DOMAIN ref : (IF x = k THEN c ELSE cnt[x]) = ref[x] \div g, "C01.WindowExact">>,
    <<(RefServable(ref) /\ n > W) => picks[n - W] = k, "C01.WindowExact">> >>

SelUpdate(k) ==
  /\ picks' = Append(picks, k)
  /\ cnt' = IF k \in DOMAIN cnt /\ Len(picks) < RefW(ref) THEN [cnt EXCEPT ![k] = @ + 1] ELSE cnt

ImplPick ==   \* the model's own prediction
  IF Len(pool) > 0 /\ MaxWeight(pool) = 0 THEN [err |-> "allzero", idx |-> idx, cw |-> cw]
  ELSE PickResult(pool, idx, cw, FALSE)

ImplMismatch(obsOk, k) ==
  LET r == ImplPick IN
  subject = "rr" /\ ( (r.err = "ok") # obsOk \/ (r.err = "ok" /\ obsOk /\ pool[r.idx + 1].k # k) )

(* a refused administration call (unknown server removed, invalid option, refused add) "changes nothing": the rotation *)
(* goes on exactly where it was - decided by the rr.go model, which leaves its iterator untouched on those paths        *)
RefusedClause(obsOk, k) == << <<~(rfz /\ ImplMismatch(obsOk, k)), "C02.RefusedCallChangesNothing">> >>

ImplStep(obsOk, k) ==
  LET r == ImplPick IN
  /\ idx' = r.idx /\ cw' = r.cw
  /\ drift' = IF ImplMismatch(obsOk, k)
              THEN Report(drift, scn, l, "rr.nextServer") ELSE drift

Pick ==
  /\ IsEvent("Pick")
  /\ IF Ev.err = "ok"
       THEN /\ bad' = ReportAll(bad, scn, l, SelChecks(Ev.k) \o RefusedClause(TRUE, Ev.k))
            /\ SelUpdate(Ev.k)
       ELSE /\ bad' = ReportAll(bad, scn, l, << <<~RefServable(ref), "C02.ServableNeverRefused">> >> \o RefusedClause(FALSE, ""))
            /\ UNCHANGED <<picks, cnt>>
  /\ ImplStep(Ev.err = "ok", Ev.k)
  /\ UNCHANGED <<scn, subject, pool, ref, rfz>> /\ nev' = nev + 1

(* a request through ServeHTTP.  ck = key named by a valid affinity cookie ("" if none) *)
Serve ==
  /\ IsEvent("Serve")
  /\ LET must == Ev.ck # "" /\ Ev.ck \in DOMAIN ref      \* the cookie names a current member
         free == Ev.ckfree                                   \* the property does not say whether this cookie counts
         stuck == \/ must /\ (~Ev.invoked \/ Ev.k = Ev.ck)   \* ... and the code honoured it
                  \/ free /\ Ev.sticky # "" /\ ~Ev.setcookie \* a "free" cookie was honoured (no new cookie was minted)
     IN
     IF Ev.invoked
       THEN IF stuck
              THEN /\ bad' = ReportAll(bad, scn, l, <<
                          <<Ev.status = Ev.hstatus, "C20.StatusRelayed">>,
                          <<NotMutated(Ev.members), "C02.PoolNotMutated">>,
                          <<MembersOK(Ev.members, ref), "C02.HandlerCannotAlterPool">> >>)
                   /\ UNCHANGED <<picks, cnt, idx, cw, drift>>
              ELSE /\ bad' = ReportAll(bad, scn, l, SelChecks(Ev.k) \o RefusedClause(TRUE, Ev.k) \o <<
                          <<~must, "C11.StuckToCookieServer">>,
                          <<(Ev.sticky # "" /\ ~free) => Ev.setcookie, "C11.FreshCookieIssued">>,
                          <<Ev.status = Ev.hstatus, "C20.StatusRelayed">>,
                          <<NotMutated(Ev.members), "C02.PoolNotMutated">>,
                          <<MembersOK(Ev.members, ref), "C02.HandlerCannotAlterPool">> >>)
                   /\ SelUpdate(Ev.k)
                   /\ ImplStep(TRUE, Ev.k)
       ELSE /\ bad' = ReportAll(bad, scn, l, <<
                   <<Ev.sticky # "" => ~RefServable(ref), "C11.NeverRejected">>,
                   <<~RefServable(ref), "C02.ServableNeverRefused">>,
                   <<Ev.status >= 500, "C02.ErrorResponseWhenUnservable">>,
                   <<MembersOK(Ev.members, ref), "C02.HandlerCannotAlterPool">> >>)
            /\ UNCHANGED <<picks, cnt>>
            /\ IF stuck THEN UNCHANGED <<idx, cw, drift>> ELSE ImplStep(FALSE, "")
  /\ UNCHANGED <<scn, subject, pool, ref, rfz>> /\ nev' = nev + 1

(* ---- events of the concurrent drivers: taken from the hooks inside the balancer's mutex ---- *)
CUpsert ==        \* rr.upsert hook: server k now has weight w
  /\ IsEvent("CUpsert")
  /\ LET r2 == [x \in DOMAIN ref \cup {Ev.k} |-> IF x = Ev.k THEN Ev.w ELSE ref[x]] IN
     /\ ref' = r2 /\ cnt' = ZeroCnt(r2)
  /\ picks' = <<>>
  /\ pool' = (IF FindKey(pool, Ev.k) # 0 THEN [pool EXCEPT ![FindKey(pool, Ev.k)].w = Ev.w]
              ELSE Append(pool, [k |-> Ev.k, v |-> Ev.v, w |-> Ev.w]))
  /\ idx' = -1 /\ cw' = 0
  /\ UNCHANGED <<scn, subject, bad, drift, rfz>> /\ nev' = nev + 1

CRemove ==        \* rr.remove hook
  /\ IsEvent("CRemove")
  /\ LET r2 == RefRemove(ref, Ev.k) IN
     /\ ref' = r2 /\ cnt' = ZeroCnt(r2)
  /\ picks' = <<>>
  /\ LET i == FindKey(pool, Ev.k) IN
     IF i = 0 THEN UNCHANGED <<pool, idx, cw>>
     ELSE pool' = RemoveAt(pool, i) /\ idx' = -1 /\ cw' = 0
  /\ UNCHANGED <<scn, subject, bad, drift, rfz>> /\ nev' = nev + 1

Members ==        \* inspection at quiescence
  /\ IsEvent("Members")
  /\ bad' = ReportAll(bad, scn, l, <<
         <<NotMutated(Ev.members), "C02.PoolNotMutated">>,
         <<MembersOK(Ev.members, ref), "C02.MembersMatchAdminCalls">> >>)
  /\ UNCHANGED <<scn, subject, pool, idx, cw, ref, picks, cnt, drift, rfz>> /\ nev' = nev + 1

End ==
  /\ IsEvent("End")
  /\ JsonSerialize("result.json", [bad |-> bad, drift |-> drift, events |-> nev, lines |-> l])
  /\ UNCHANGED <<scn, subject, pool, idx, cw, ref, picks, cnt, bad, drift, nev, rfz>>

Next == Reset \/ Upsert \/ UpsertFail \/ UpsertBad \/ Remove \/ Pick \/ Serve \/ CUpsert \/ CRemove \/ Members \/ End
Spec == Init /\ [][Next]_vars
=============================================================================
