----------------------------- MODULE Trace_Conc -----------------------------
(* Quiescence checks of the concurrent drivers (C09): with the clock frozen every *)
(* counter has an exact expected value; a lost update shows as a difference.      *)
EXTENDS TraceBase
VARIABLES l, scn, bad, drift, nev
vars == <<l, scn, bad, drift, nev>>
Ev == Log[l]
IsEvent(e) == l <= Len(Log) /\ Log[l].e = e /\ l' = l + 1
Init == l = 1 /\ scn = "" /\ bad = <<>> /\ drift = <<>> /\ nev = 0
Reset == /\ IsEvent("Reset") /\ scn' = Ev.scn /\ UNCHANGED <<bad, drift>> /\ nev' = nev + 1
Totals == /\ IsEvent("Totals")
          /\ bad' = ReportAll(bad, scn, l, << <<Ev.got = Ev.expect, IF "clause" \in DOMAIN Ev THEN Ev.clause ELSE "C09.NoLostUpdate">> >>)
          /\ UNCHANGED <<scn, drift>> /\ nev' = nev + 1
AtMost == /\ IsEvent("AtMost")
          /\ bad' = ReportAll(bad, scn, l, << <<Ev.got <= Ev.bound, IF "clause" \in DOMAIN Ev THEN Ev.clause ELSE "C09.BoundHoldsUnderConcurrency">> >>)
          /\ UNCHANGED <<scn, drift>> /\ nev' = nev + 1
End == /\ IsEvent("End")
       /\ JsonSerialize("result.json", [bad |-> bad, drift |-> drift, events |-> nev, lines |-> l])
       /\ UNCHANGED vars
Next == Reset \/ Totals \/ AtMost \/ End
Spec == Init /\ [][Next]_vars
=============================================================================
