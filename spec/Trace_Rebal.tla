----------------------------- MODULE Trace_Rebal -----------------------------
(* Trace specification for roundrobin.Rebalancer (C10): scripted meters supply  *)
(* ratings/readiness per request, effective weights are read back from the      *)
(* wrapped balancer after every call.                                           *)
EXTENDS Rebalancer, TraceBase

VARIABLES l, scn, cfg, now, srv, timer, gh, bad, drift, nev
vars == <<l, scn, cfg, now, srv, timer, gh, bad, drift, nev>>
Ev == Log[l]
IsEvent(e) == l <= Len(Log) /\ Log[l].e = e /\ l' = l + 1

Init == /\ l = 1 /\ scn = "" /\ cfg = [backoff |-> 1, cap |-> 4096] /\ now = 0 /\ srv = <<>> /\ timer = -1
        /\ gh = Ghost0 /\ bad = <<>> /\ drift = <<>> /\ nev = 0
Reset == /\ IsEvent("Reset") /\ scn' = Ev.scn /\ cfg' = Ev.cfg /\ now' = 0 /\ srv' = <<>> /\ timer' = -1 /\ gh' = Ghost0
         /\ UNCHANGED <<bad, drift>> /\ nev' = nev + 1
Adv == /\ IsEvent("Adv") /\ now' = now + Ev.d /\ UNCHANGED <<scn, cfg, srv, timer, gh, bad, drift>> /\ nev' = nev + 1

WF(list) == [k \in {list[i].k : i \in 1..Len(list)} |-> (list[CHOOSE i \in 1..Len(list) : list[i].k = k]).w]
RF(list) == [k \in {list[i].k : i \in 1..Len(list)} |-> (list[CHOOSE i \in 1..Len(list) : list[i].k = k]).r]
DF(list) == [k \in {list[i].k : i \in 1..Len(list)} |-> (list[CHOOSE i \in 1..Len(list) : list[i].k = k]).ready]
CurF(s) == [k \in {s[i].k : i \in 1..Len(s)} |-> s[FindSrv(s, k)].cur]
RECURSIVE ReportSet(_, _, _, _)
ReportSet(acc, s, line, S) == IF S = {} THEN acc ELSE LET c == CHOOSE x \in S : TRUE IN ReportSet(Report(acc, s, line, c), s, line, S \ {c})

Upsert ==
  /\ IsEvent("Upsert")
  /\ LET o2 == [k \in DOMAIN gh.orig \cup {Ev.k} |-> IF k = Ev.k THEN Ev.w ELSE gh.orig[k]]
         r == GhostAdmin(gh, o2, WF(Ev.weights))
         s2 == UpsertSrv(srv, Ev.k, Ev.w) IN
     /\ gh' = r.ghost /\ bad' = ReportSet(bad, scn, l, r.viol)
     /\ srv' = s2 /\ timer' = now - cfg.tps
     /\ drift' = IF CurF(s2) = WF(Ev.weights) THEN drift ELSE Report(drift, scn, l, "rb.upsert")
  /\ UNCHANGED <<scn, cfg, now>> /\ nev' = nev + 1
Remove ==
  /\ IsEvent("Remove")
  /\ IF Ev.k \in DOMAIN gh.orig
       THEN LET o2 == [k \in DOMAIN gh.orig \ {Ev.k} |-> gh.orig[k]]
                r == GhostAdmin(gh, o2, WF(Ev.weights))
                s2 == RemoveSrv(srv, Ev.k) IN
            /\ gh' = r.ghost /\ bad' = ReportSet(bad, scn, l, r.viol)
            /\ srv' = s2 /\ timer' = now - cfg.tps
            /\ drift' = IF CurF(s2) = WF(Ev.weights) THEN drift ELSE Report(drift, scn, l, "rb.remove")
       ELSE UNCHANGED <<gh, bad, srv, timer, drift>>
  /\ UNCHANGED <<scn, cfg, now>> /\ nev' = nev + 1
Req ==
  /\ IsEvent("Req")
  /\ LET w2 == WF(Ev.weights)
         rtf == RF(Ev.meters)  rdf == DF(Ev.meters)
         r == GhostReq(gh, now, rtf, rdf, w2, cfg.backoff, cfg.cap)
         a == Adjust(srv, timer, now, cfg.backoff, cfg.cap, [i \in 1..Len(srv) |-> rtf[srv[i].k]],
                     [i \in 1..Len(srv) |-> rdf[srv[i].k]], FALSE) IN
     /\ gh' = r.ghost /\ bad' = ReportSet(bad, scn, l, r.viol)
     /\ srv' = a.srv /\ timer' = a.timer
     /\ drift' = IF CurF(a.srv) = w2 THEN drift ELSE Report(drift, scn, l, "rb.adjustWeights")
  /\ UNCHANGED <<scn, cfg, now>> /\ nev' = nev + 1
End == /\ IsEvent("End")
       /\ JsonSerialize("result.json", [bad |-> bad, drift |-> drift, events |-> nev, lines |-> l])
       /\ UNCHANGED vars
Next == Reset \/ Adv \/ Upsert \/ Remove \/ Req \/ End
Spec == Init /\ [][Next]_vars
=============================================================================
