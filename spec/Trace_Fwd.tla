------------------------------ MODULE Trace_Fwd ------------------------------
(* Trace specification for the forwarder: one "Fwd" event per exchange through a *)
(* real proxy to a scripted raw TCP backend.                                     *)
(*   contract (bad): C08 outgoing request (target bytes, protocol, Host, header  *)
(*                   algebra, forwarding headers), C16 response relay, failure   *)
(*                   mapping, paired listener events, no hang                    *)
(*   impl (drift):   Forwarder.tla's Outgoing predicts the header set            *)
EXTENDS Forwarder, TraceBase

VARIABLES l, scn, bad, drift, nev
vars == <<l, scn, bad, drift, nev>>
Ev == Log[l]
IsEvent(e) == l <= Len(Log) /\ Log[l].e = e /\ l' = l + 1
Init == l = 1 /\ scn = "" /\ bad = <<>> /\ drift = <<>> /\ nev = 0
Reset == /\ IsEvent("Reset") /\ scn' = Ev.scn /\ UNCHANGED <<bad, drift>> /\ nev' = nev + 1

ToSet(s) == {s[i] : i \in 1..Len(s)}

FwdEv ==
  /\ IsEvent("Fwd")
  /\ LET r == [e2e |-> ToSet(Ev.in.e2e), hop |-> ToSet(Ev.in.hop), conn |-> ToSet(Ev.in.conn), upstream |-> ToSet(Ev.in.upstream),
               tls |-> Ev.in.tls, hostport |-> Ev.in.hostport, passhost |-> Ev.in.passhost]
         seen == Ev.out.seen
         o == [names |-> ToSet(Ev.out.names), vals |-> Ev.out.vals, host |-> Ev.out.host]
         m == Outgoing(r, TRUE)
         ok == Ev.mode = "ok"
         want == IF ok THEN Ev.wantok ELSE WantStatus(Ev.mode)
         obs == IF Ev.mode = "client_cancel" THEN Ev.recorded ELSE Ev.status
     IN
     /\ bad' = ReportAll(bad, scn, l, <<
          <<seen => Ev.out.targetEq, "C08.TargetBytesUnchanged">>,
          <<seen => Ev.out.proto = "HTTP/1.1", "C08.SentAsHTTP11">>,
          <<seen => HostOK(r, o), "C08.HostHeader">>,
          <<seen => o.names \cap HopList = {}, "C08.NoHopByHopHeader">>,
          <<seen => (r.conn \cap r.e2e) \cap o.names = {}, "C08.ConnectionNamedHeadersDropped">>,
          <<seen => (r.e2e \ r.conn) \subseteq o.names, "C08.EndToEndHeadersPreserved">>,
          <<seen => ForwardingOK(r, o), "C08.ForwardingHeadersDescribeConnection">>,
          <<seen => Ev.out.xffLast, "C08.PeerAppendedToXForwardedFor">>,
          <<(seen /\ "X-Forwarded-For" \in r.upstream /\ "X-Forwarded-For" \notin r.conn) => Ev.out.xffPrior, "C08.XForwardedForPriorKept">>,
          <<ok => seen, "C16.RequestReachesBackend">>,
          <<~Ev.hang, "C16.NeverHangs">>,
          <<Ev.mode # "abort_body" => obs = want, "C16.StatusMapping">>,
          <<ok => Ev.resp.e2e, "C16.ResponseHeadersRelayed">>,
          <<ok => Ev.resp.hopAbsent, "C08.NoHopByHopHeaderInResponse">>,
          <<ok => Ev.resp.bodyEq, "C16.ResponseBodyRelayed">>,
          <<Ev.mode = "abort_body" => Ev.clienterr # "", "C16.TruncatedBodyNotDeliveredAsComplete">>,
          <<Ev.events = <<"connected", "disconnected">>, "C16.ListenerEventsPaired">> >>)
     /\ drift' = IF ~seen \/ (o.names \ {"X-Forwarded-For"}) = (m.names \ {"X-Forwarded-For"}) THEN drift
                 ELSE Report(drift, scn, l, "forward.Director+ReverseProxy")
  /\ UNCHANGED scn /\ nev' = nev + 1

(* a request asking for a protocol switch: Upgrade header plus a Connection header naming it (any spelling).  When the  *)
(* backend switches (101) the client must get that 101 with the backend's headers and a working byte stream both ways; *)
(* when the request does not ask, or the backend declines, it is an ordinary exchange.                                *)
UpgEv ==
  /\ IsEvent("Upg")
  /\ LET switch == Ev.asks /\ Ev.backend = "101"
         m == UpgradeOutcome(Ev.asks, Ev.backend = "101") IN
     /\ drift' = IF m.status = Ev.status /\ (Ev.seen => m.upgradeSeen = Ev.sawUpgrade) /\ m.tunnel = (Ev.down /\ Ev.up)
                   THEN drift ELSE Report(drift, scn, l, "forward.Director+ReverseProxy(upgrade)")
     /\ bad' = ReportAll(bad, scn, l, <<
          <<Ev.seen, "C16.RequestReachesBackend">>,
          <<~Ev.hang, "C16.NeverHangs">>,
          <<Ev.seen => Ev.sawEnd, "C08.EndToEndHeadersPreserved">>,
          <<(Ev.seen /\ Ev.asks) => Ev.sawUpgrade, "C16.UpgradeRequestRelayed">>,
          <<switch => Ev.status = 101, "C16.StatusMapping">>,
          <<switch => (Ev.backHdr /\ Ev.upHdr = Ev.proto), "C16.ResponseHeadersRelayed">>,
          <<switch => (Ev.down /\ Ev.up), "C16.UpgradedStreamRelayed">>,
          <<~switch => Ev.status = 200, "C16.StatusMapping">>,
          <<~switch => (Ev.backHdr /\ Ev.body = "plain"), "C16.ResponseBodyRelayed">>,
          <<Ev.events = <<"connected", "disconnected">>, "C16.ListenerEventsPaired">> >>)
  /\ UNCHANGED scn /\ nev' = nev + 1

End == /\ IsEvent("End")
       /\ JsonSerialize("result.json", [bad |-> bad, drift |-> drift, events |-> nev, lines |-> l])
       /\ UNCHANGED vars
Next == Reset \/ FwdEv \/ UpgEv \/ End
Spec == Init /\ [][Next]_vars
=============================================================================
