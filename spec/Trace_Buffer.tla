----------------------------- MODULE Trace_Buffer -----------------------------
(* Trace specification for buffer.Buffer: one "Exch" event per client exchange   *)
(* with what every handler invocation saw and what the client received.          *)
(*   contract (bad): C06 request identity per attempt, C07 one response / final  *)
(*                   attempt / invocation count, C15 limits and temp files       *)
(*   impl (drift):   Buffer.tla's Run predicts invocations, status, body length  *)
EXTENDS Buffer, TraceBase

VARIABLES l, scn, cfg, bad, drift, nev
vars == <<l, scn, cfg, bad, drift, nev>>
Ev == Log[l]
IsEvent(e) == l <= Len(Log) /\ Log[l].e = e /\ l' = l + 1

Init == l = 1 /\ scn = "" /\ cfg = [ast |-> [k |-> "none"]] /\ bad = <<>> /\ drift = <<>> /\ nev = 0
Reset == /\ IsEvent("Reset") /\ scn' = Ev.scn /\ cfg' = Ev.cfg /\ UNCHANGED <<bad, drift>> /\ nev' = nev + 1

All(seen, f(_)) == \A i \in 1..Len(seen) : f(seen[i])

Exch ==
  /\ IsEvent("Exch")
  /\ LET req == Ev.req  scripts == Ev.scripts
         over == ReqTooLarge(cfg, req)
         inv == Ev.inv
         overAt == \E k \in 1..inv : RespOver(cfg, Sc(scripts, k))
         w0 == WantInv(cfg, req, scripts, 1, 0)
         w2 == WantInv(cfg, req, scripts, 1, 200)
         overBefore == \E k \in 1..(IF w0 > w2 THEN w0 ELSE w2) : RespOver(cfg, Sc(scripts, k))
         final == Sc(scripts, IF inv = 0 THEN 1 ELSE inv)
         m == Run(cfg, req, scripts, FALSE, FALSE, FALSE)
     IN
     /\ bad' = ReportAll(bad, scn, l, <<
          <<over => Ev.status = 413 /\ inv = 0, "C15.RequestOverLimitIs413">>,
          <<~over => inv >= 1, "C07.HandlerInvoked">>,
          <<~over => inv >= 1 /\ (Ev.status = 413 => final.status = 413), "C15.WithinLimitReachesHandler">>,
          <<All(Ev.seen, LAMBDA s : s.methodEq /\ s.urlEq /\ s.hdrEq), "C06.MethodUrlHeadersIdentical">>,
          <<All(Ev.seen, LAMBDA s : s.clEq), "C06.TrueLengthDeclared">>,
          <<All(Ev.seen, LAMBDA s : s.teEmpty), "C06.NoChunkedEncoding">>,
          <<All(Ev.seen, LAMBDA s : s.bodyEq), "C06.BodyCompleteFromFirstByte">>,
          <<(~over /\ overAt /\ ~Ev.scriptpanic) => Ev.status >= 400, "C15.ResponseOverLimitReplaced">>,
          <<(~over /\ overAt) => Ev.hbytes = 0, "C15.ResponseOverLimitReplaced">>,
          <<Ev.files = 0, "C15.NoTempFiles">>,
          \* (a spilled REQUEST body cannot be seen in the directory: the library unlinks that file as soon as it is created)
          <<cfg.memResp >= 0 =>
               All(Ev.seen, LAMBDA s : LET w == SumSeq(Sc(scripts, s.k).writes) IN
                                       (w > cfg.memResp /\ (cfg.maxResp < 0 \/ w <= cfg.maxResp)) => s.afterFiles >= s.entryFiles + 1),
            "C15.BeyondThresholdSpilled">>,
          <<Ev.panicked => Ev.scriptpanic, "C07.ExactlyOneResponse">>,      \* only a handler that aborts itself may abort the exchange
          <<(~over /\ ~overBefore /\ w0 = w2 /\ ~Ev.scriptpanic) => inv = w0, "C07.InvocationCount">>,
          <<inv <= MaxAttempts + 1, "C07.AtMostElevenInvocations">>,
          <<(~over /\ ~overAt /\ ~Ev.panicked) =>
                /\ Ev.from = inv /\ ~Ev.foreign
                /\ Ev.status = (IF final.status = 0 THEN 200 ELSE final.status), "C07.FinalAttemptDelivered">>,
          <<(~over /\ ~overAt /\ ~Ev.panicked /\ final.status = 0) => Ev.status = 200, "C07.ImplicitStatusIs200">>,
          <<(~over /\ ~overAt /\ ~Ev.panicked /\ ExpectBody(req, final)) =>
                Ev.body = SumSeq(final.writes) /\ Ev.bodyok, "C07.FinalBodyDelivered">> >>)
     /\ drift' = IF Ev.scriptpanic \/ (m.inv = inv /\ (m.status = Ev.status \/ Ev.panicked)) THEN drift ELSE Report(drift, scn, l, "buffer.ServeHTTP")
  /\ UNCHANGED <<scn, cfg>> /\ nev' = nev + 1

End == /\ IsEvent("End")
       /\ JsonSerialize("result.json", [bad |-> bad, drift |-> drift, events |-> nev, lines |-> l])
       /\ UNCHANGED vars
Next == Reset \/ Exch \/ End
Spec == Init /\ [][Next]_vars
=============================================================================
