--------------------------- MODULE RoundRobin ---------------------------
(***************************************************************************)
(* Implementation-shaped model of roundrobin.RoundRobin (rr.go) and the    *)
(* contract layer for properties C01 (exact proportionality) and C02       *)
(* (only current members receive traffic).                                 *)
(*                                                                         *)
(* One action per critical section of the Go code (everything below runs   *)
(* under RoundRobin.mutex):                                                *)
(*    Pick      = nextServer()                                             *)
(*    Upsert    = UpsertServer(u, Weight(w)?)                              *)
(*    Remove    = RemoveServer(u)                                          *)
(* A server URL is abstracted to [k, v]: k is the identity the balancer    *)
(* compares (scheme, host, path), v distinguishes URLs with the same       *)
(* identity (userinfo / query).                                            *)
(***************************************************************************)
EXTENDS Integers, Sequences, FiniteSets, TLC

NoW == -1                 \* "no Weight option supplied"
DefaultWeight == 1

(* ---------- arithmetic exactly as in rr.go ---------- *)
RECURSIVE GoGcd(_, _)
GoGcd(a, b) == IF b = 0 THEN a ELSE GoGcd(b, a % b)

RECURSIVE FoldGcd(_, _, _)
FoldGcd(p, i, d) ==                     \* weightGcd(): divisor starts at -1
  IF i > Len(p) THEN d
  ELSE FoldGcd(p, i + 1, IF d = -1 THEN p[i].w ELSE GoGcd(d, p[i].w))
WeightGcd(p) == FoldGcd(p, 1, -1)

RECURSIVE FoldMax(_, _, _)
FoldMax(p, i, m) == IF i > Len(p) THEN m
                    ELSE FoldMax(p, i + 1, IF p[i].w > m THEN p[i].w ELSE m)
MaxWeight(p) == FoldMax(p, 1, -1)

(* The selection loop of nextServer().  idx is the Go 0-based index.      *)
(* StrictCmp = TRUE models the mutant  srv.weight > currentWeight.         *)
RECURSIVE Scan(_, _, _, _, _, _, _)
Scan(p, i, c, g, mx, strict, fuel) ==
  LET i2 == (i + 1) % Len(p)
      wrap == i2 = 0
      c1 == IF wrap THEN c - g ELSE c
      c2 == IF wrap /\ c1 <= 0 THEN mx ELSE c1
  IN IF wrap /\ c1 <= 0 /\ mx = 0
       THEN [err |-> "allzero", idx |-> i2, cw |-> 0]
     ELSE IF fuel = 0
       THEN [err |-> "diverge", idx |-> i2, cw |-> c2]
     ELSE IF (IF strict THEN p[i2 + 1].w > c2 ELSE p[i2 + 1].w >= c2)
       THEN [err |-> "ok", idx |-> i2, cw |-> c2]
     ELSE Scan(p, i2, c2, g, mx, strict, fuel - 1)

PickResult(p, i, c, strict) ==
  IF Len(p) = 0 THEN [err |-> "empty", idx |-> i, cw |-> c]
  ELSE LET mx == MaxWeight(p)
           g == WeightGcd(p)
           top == IF c > mx THEN c ELSE mx                   \* a failed update can leave the level above the new maximum
           levels == IF g > 0 THEN top \div g ELSE top        \* number of weight levels the loop may have to walk down
       IN Scan(p, i, c, g, mx, strict, (levels + 2) * (Len(p) + 1))

FindKey(p, k) ==              \* findServerByURL: first index with the same identity, 0 if none
  LET S == {i \in 1..Len(p) : p[i].k = k} IN
  IF S = {} THEN 0 ELSE CHOOSE i \in S : \A j \in S : i <= j

RemoveAt(p, i) == SubSeq(p, 1, i - 1) \o SubSeq(p, i + 1, Len(p))

(* Upsert of [k,v] with option w (NoW = none).  Returns the new pool.      *)
UpsertPool(p, k, v, w) ==
  LET i == FindKey(p, k) IN
  IF i # 0
    THEN IF w = NoW THEN p ELSE [p EXCEPT ![i].w = w]
    ELSE Append(p, [k |-> k, v |-> v,
                    w |-> IF w = NoW \/ w = 0 THEN DefaultWeight ELSE w])

PoolKeys(p) == {p[i].k : i \in 1..Len(p)}
PoolWeight(p, k) == p[FindKey(p, k)].w
SumW(p) == LET RECURSIVE S(_) S(i) == IF i > Len(p) THEN 0 ELSE p[i].w + S(i + 1) IN S(1)

(* ---------- contract helpers (C01) ---------- *)
(* ref is a function key -> weight (the reference built from admin calls)  *)
RefGcd(ref) == LET ks == DOMAIN ref
                   RECURSIVE G(_, _)
                   G(S, d) == IF S = {} THEN d
                              ELSE LET x == CHOOSE y \in S : TRUE
                                   IN G(S \ {x}, GoGcd(d, ref[x]))
               IN G(ks, 0)
RefSum(ref) == LET RECURSIVE G(_)
                   G(S) == IF S = {} THEN 0
                           ELSE LET x == CHOOSE y \in S : TRUE IN ref[x] + G(S \ {x})
               IN G(DOMAIN ref)
RefServable(ref) == \E k \in DOMAIN ref : ref[k] > 0
RefW(ref) == IF RefServable(ref) THEN RefSum(ref) \div RefGcd(ref) ELSE 0
=============================================================================
