------------------------------ MODULE MC_Source ------------------------------
EXTENDS SourceExtract
CONSTANT FirstColon
VARIABLES p, q
vars == <<p, q>>
Peers == [fam : {"v4"}, a : 1..3, zone : {0}, port : 1..2, g1 : {0}] \cup
         [fam : {"v6"}, a : 1..3, zone : {0}, port : 1..2, g1 : 1..2] \cup
         [fam : {"v6zone"}, a : 1..2, zone : 1..2, port : 1..2, g1 : {1}]
Init == p \in Peers /\ q \in Peers
Next == UNCHANGED vars
Spec == Init /\ [][Next]_vars
TokenIffAddress == (Token(p, FirstColon) = Token(q, FirstColon)) <=> SameAddress(p, q)
=============================================================================
