----------------------------- MODULE Gen_Sticky -----------------------------
EXTENDS MC_Sticky, Json
CONSTANT Depth
VARIABLE hist
GInit == Init /\ hist = <<[op |-> "init", pool |-> pool, vars |-> var, codec |-> codec]>>
GNext == /\ Len(hist) < Depth
         /\ \/ \E kind \in Kinds, p \in Keys : Request(kind, p) /\ hist' = Append(hist, [op |-> "serve", cookie |-> kind])
            \/ \E k \in Keys : Remove(k) /\ hist' = Append(hist, [op |-> "remove", k |-> k])
            \/ \E k \in Keys : Add(k) /\ hist' = Append(hist, [op |-> "upsert", k |-> k])
            \/ \E d \in Advances : Advance(d) /\ hist' = Append(hist, [op |-> "adv", d |-> d])
GSpec == GInit /\ [][GNext]_<<vars, hist>>
Emit == Len(hist) = Depth => PrintT(ToJson(hist))
=============================================================================
