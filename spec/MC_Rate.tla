------------------------------ MODULE MC_Rate ------------------------------
(* Exhaustive model of the token limiter against C03 / C13 / C14.           *)
EXTENDS RateLimiter

CONSTANTS Sources, RateSets, Tps, Cap, Amounts, Advances, MaxReq, Horizon,
          RefreshOnAccess, NoRollback, TrackPot, TrackSolo
(* TrackPot / TrackSolo switch the ghost variables of C03 / C14 on (they multiply the state space, *)
(* so each property family has its own configuration).                                            *)

VARIABLES rates, now, tracked, nreq,
          pot, potT,        \* ghost: per source, per rate potential and time of its last update
          solo,             \* ghost: each source's private single-source limiter (same code, own map)
          last              \* last decision: [s, n, out, delay, soloOut]

vars == <<rates, now, tracked, nreq, pot, potT, solo, last>>

NoFn == <<>>
Init == /\ rates \in RateSets
        /\ now = 0 /\ tracked = NoFn /\ nreq = 0
        /\ pot = [s \in Sources |-> [i \in 1..3 |-> 0]] /\ potT = [s \in Sources |-> 0]
        /\ solo = [s \in Sources |-> NoFn]
        /\ last = [s |-> "", n |-> 0, out |-> "none", delay |-> 0, soloOut |-> "none", evicted |-> FALSE]

Request(s, n) ==
  /\ nreq < MaxReq
  /\ \E v \in (IF NeedsVictim(tracked, Cap, Tps, now, s) THEN VictimsFor(tracked, Tps, now, s) ELSE {s}) :
       LET r == ConsumeRates(tracked, rates, Cap, Tps, now, s, n, v, RefreshOnAccess, NoRollback)
           q == ConsumeRates(solo[s], rates, 1, Tps, now, s, n, s, RefreshOnAccess, NoRollback)
       IN /\ tracked' = r.tracked
          /\ solo' = IF TrackSolo THEN [solo EXCEPT ![s] = q.tracked] ELSE solo
          /\ last' = [s |-> s, n |-> n, out |-> r.out, delay |-> r.delay,
                      soloOut |-> IF TrackSolo THEN q.out ELSE r.out, evicted |-> r.evicted]
          /\ IF r.out = "ok" /\ TrackPot
               THEN /\ pot' = [pot EXCEPT ![s] = [i \in 1..3 |->
                                 IF i <= Len(rates) THEN PotAfter(pot[s][i], rates[i], now - potT[s], n) ELSE 0]]
                    /\ potT' = [potT EXCEPT ![s] = now]
               ELSE UNCHANGED <<pot, potT>>
  /\ nreq' = nreq + 1
  /\ UNCHANGED <<rates, now>>

Advance(d) == /\ now + d <= Horizon /\ now' = now + d
              /\ UNCHANGED <<rates, tracked, nreq, pot, potT, solo, last>>

Next == (\E s \in Sources, n \in Amounts : Request(s, n)) \/ (\E d \in Advances : Advance(d))
Spec == Init /\ [][Next]_vars

WithinCapacity == Cardinality(Sources) <= Cap

(* ----- C03 ----- *)
AdmissionBound ==
  \A s \in Sources : \A i \in 1..Len(rates) : pot[s][i] <= PotBound(rates[i])

(* ----- C14: the decision equals the one the source gets alone ----- *)
SameAsSolo == last.out = last.soloOut \/ last.out = "none"

(* ----- C13, evaluated as a look-ahead from every reachable state ----- *)
Probe(s, n, t) ==       \* decision source s would get for amount n at time t, with no other traffic
  LET v == IF NeedsVictim(tracked, Cap, Tps, t, s) THEN CHOOSE x \in VictimsFor(tracked, Tps, t, s) : TRUE ELSE s
  IN ConsumeRates(tracked, rates, Cap, Tps, t, s, n, v, RefreshOnAccess, NoRollback)
Tokens(tr, s, t) ==     \* tokens source s has at time t (after refill), per rate
  IF s \in DOMAIN tr /\ ~Expired(tr[s], t, Tps)
    THEN [i \in 1..Len(rates) |-> Refill(tr[s].bks[i], rates[i], t).avail]
    ELSE [i \in 1..Len(rates) |-> rates[i].b]
MinBurst == LET RECURSIVE M(_) M(i) == IF i = 1 THEN rates[1].b ELSE Min(rates[i].b, M(i - 1)) IN M(Len(rates))
MaxIdle == LET RECURSIVE M(_) M(i) == IF i = 0 THEN 0 ELSE Max(rates[i].b * Tpt(rates[i]), M(i - 1)) IN M(Len(rates))

RejectionFree ==        \* (a) a rejected request leaves every budget untouched
  \A s \in Sources, n \in Amounts :
     LET r == Probe(s, n, now) IN
     r.out # "ok" => Tokens(r.tracked, s, now) = Tokens(tracked, s, now)
WaitSufficient ==       \* (b) retry after the advertised delay is admitted
  \A s \in Sources, n \in Amounts :
     LET r == Probe(s, n, now) IN
     (r.out = "limit") =>
        LET t2 == [tracked |-> r.tracked] IN
        LET v == s
            r2 == ConsumeRates(r.tracked, rates, Cap, Tps, now + r.delay, s, n, v, RefreshOnAccess, NoRollback)
        IN r2.out = "ok"
IdleRegainsBurst ==     \* (c) idle for burst * timePerToken => full burst available
  \A s \in Sources : Probe(s, MinBurst, now + MaxIdle).out = "ok"
OversizeRefused ==      \* (d) larger than the burst => error, never a delay
  \A s \in Sources, n \in Amounts :
     LET r == Probe(s, n, now) IN (n > MinBurst) <=> (r.out = "error")
=============================================================================
