--------------------------- MODULE RollingCounter ---------------------------
(***************************************************************************)
(* memmetrics.RollingCounter (counter.go): N buckets of resolution r.      *)
(* Time is in ticks (tps ticks per second) relative to the frozen origin;  *)
(* off is the origin's offset inside a resolution step, so that            *)
(*   Truncate(t) = t - ((t + off) % r).                                    *)
(* AsIs selects the bucket mapping of the code as found                    *)
(*   (Unix seconds of the truncated time) % N                              *)
(* instead of (slot number) % N.                                           *)
(***************************************************************************)
EXTENDS Integers, Sequences, TLC

Never == -1000000                      \* lastUpdated of a fresh / reset counter

Trunc(t, r, off) == IF t = Never THEN Never ELSE t - ((t + off) % r)
Slot(t, r, off) == (t + off) \div r

Bucket(t, c) ==          \* c = [n, r, tps, off, u0, asis]
  IF c.asis THEN ((c.u0 * c.tps + Trunc(t, c.r, c.off)) \div c.tps) % c.n
  ELSE Slot(t, c.r, c.off) % c.n

(* cleanup(): zero the buckets of the steps that passed since lastUpdated, newest first, at most N *)
RECURSIVE CleanFrom(_, _, _, _, _)
CleanFrom(vals, i, last, now, c) ==
  IF i >= c.n THEN vals
  ELSE LET cp == now - i * c.r IN
       IF Trunc(cp, c.r, c.off) > Trunc(last, c.r, c.off)
         THEN CleanFrom([vals EXCEPT ![Bucket(cp, c) + 1] = 0], i + 1, last, now, c)
         ELSE vals
Cleanup(vals, last, now, c) == CleanFrom(vals, 0, last, now, c)

SumSeq(s) == LET RECURSIVE S(_) S(i) == IF i = 0 THEN 0 ELSE s[i] + S(i - 1) IN S(Len(s))

IncVals(vals, last, now, v, c) ==
  LET cl == Cleanup(vals, last, now, c) IN [cl EXCEPT ![Bucket(now, c) + 1] = @ + v]
CountOf(vals, last, now, c) == SumSeq(Cleanup(vals, last, now, c))
Zeros(n) == [i \in 1..n |-> 0]

(* ----- contract: window band over the ghost log of increments, entries [t, v] ----- *)
LowerSum(log, now, c) ==
  LET RECURSIVE S(_) S(i) == IF i = 0 THEN 0
        ELSE (IF now - log[i].t < (c.n - 1) * c.r THEN log[i].v ELSE 0) + S(i - 1) IN S(Len(log))
UpperSum(log, now, c) ==
  LET RECURSIVE S(_) S(i) == IF i = 0 THEN 0
        ELSE (IF now - log[i].t <= c.n * c.r THEN log[i].v ELSE 0) + S(i - 1) IN S(Len(log))
InBand(count, log, now, c) == LowerSum(log, now, c) <= count /\ count <= UpperSum(log, now, c)
Prune(log, now, c) == SelectSeq(log, LAMBDA e : now - e.t <= c.n * c.r)
=============================================================================
