------------------------------ MODULE RTMetrics ------------------------------
(***************************************************************************)
(* memmetrics.RTMetrics (roundtrip.go): per-status rolling counters, a     *)
(* total and a network-error counter, and a rolling latency histogram      *)
(* (histogram.go), with Record / Export / Append / Reset and the readers.  *)
(*                                                                         *)
(* Counters are RollingCounter.tla's (N buckets of one second).            *)
(*   Clone   expires old buckets, then copies values and checkpoint        *)
(*   Append  = Inc(other.Count()): what another collector saw in ITS       *)
(*             window lands in the CURRENT bucket of this one (it ages     *)
(*             from the moment of the append, not from when it happened)   *)
(* Rolling histogram: B sub-histograms (bags of latencies), one current;   *)
(*   a record made a whole period or more after the last roll first moves  *)
(*   on by ONE sub-histogram, whatever time has passed, and empties it     *)
(*   (so an idle collector keeps old latencies until enough later records  *)
(*   have rolled them out); the very first record also rolls (the roll     *)
(*   time starts at the zero instant);  Append merges position by position *)
(***************************************************************************)
EXTENDS RollingCounter, FiniteSets

(* ----------------------------- counters ----------------------------- *)
FreshC(n) == [vals |-> Zeros(n), last |-> Never]
CInc(ct, now, v, c) == [vals |-> IncVals(ct.vals, ct.last, now, v, c), last |-> now]
CCount(ct, now, c) == CountOf(ct.vals, ct.last, now, c)
CClone(ct, now, c) == [vals |-> Cleanup(ct.vals, ct.last, now, c), last |-> ct.last]
CAppend(ct, other, now, c) == CInc(ct, now, CCount(other, now, c), c)

(* ------------------------- rolling histogram ------------------------- *)
FreshH(b) == [idx |-> 0, lastRoll |-> Never, bks |-> [i \in 1..b |-> <<>>]]
HRecord(h, now, lat, period) ==
  LET roll == now - h.lastRoll >= period
      idx2 == IF roll THEN (h.idx + 1) % Len(h.bks) ELSE h.idx
      b1 == IF roll THEN [h.bks EXCEPT ![idx2 + 1] = <<>>] ELSE h.bks
  IN [idx |-> idx2, lastRoll |-> IF roll THEN now ELSE h.lastRoll, bks |-> [b1 EXCEPT ![idx2 + 1] = Append(@, lat)]]
HReset(h, now) == [idx |-> 0, lastRoll |-> now, bks |-> [i \in 1..Len(h.bks) |-> <<>>]]
HAppend(h, o) == [h EXCEPT !.bks = [i \in 1..Len(h.bks) |-> h.bks[i] \o o.bks[i]]]
HAll(h) == LET RECURSIVE A(_) A(i) == IF i = 0 THEN <<>> ELSE A(i - 1) \o h.bks[i] IN A(Len(h.bks))
(* quantile over a bag of latencies, HDR semantics: smallest value whose cumulative count reaches floor(q*n/100 + 1/2); 0 if none *)
QuantileOf(bag, q) ==
  LET n == Len(bag)
      need == (2 * q * n + 100) \div 200
      vals == {bag[i] : i \in 1..n}
      cum(v) == Cardinality({i \in 1..n : bag[i] <= v})
  IN IF n = 0 \/ need = 0 THEN 0
     ELSE CHOOSE x \in vals : cum(x) >= need /\ \A y \in vals : cum(y) >= need => x <= y

(* ------------------------------ collector ------------------------------ *)
NoCodes == <<>>
FreshM(n, b) == [total |-> FreshC(n), neterr |-> FreshC(n), codes |-> NoCodes, hist |-> FreshH(b)]
IsNetErr(code) == code \in {502, 504}
PutC(f, k, v) == [x \in DOMAIN f \cup {k} |-> IF x = k THEN v ELSE f[x]]

RecordM(m, now, code, lat, c, period) ==
  [total |-> CInc(m.total, now, 1, c),
   neterr |-> IF IsNetErr(code) THEN CInc(m.neterr, now, 1, c) ELSE m.neterr,
   codes |-> PutC(m.codes, code, CInc(IF code \in DOMAIN m.codes THEN m.codes[code] ELSE FreshC(c.n), now, 1, c)),
   hist |-> HRecord(m.hist, now, lat, period)]
ExportM(m, now, c) ==
  [total |-> CClone(m.total, now, c), neterr |-> CClone(m.neterr, now, c),
   codes |-> [k \in DOMAIN m.codes |-> CClone(m.codes[k], now, c)], hist |-> m.hist]
AppendM(m, other, now, c) ==
  LET o == ExportM(other, now, c) IN
  [total |-> CAppend(m.total, o.total, now, c), neterr |-> CAppend(m.neterr, o.neterr, now, c),
   codes |-> [k \in DOMAIN m.codes \cup DOMAIN o.codes |->
                IF k \in DOMAIN m.codes /\ k \in DOMAIN o.codes THEN CAppend(m.codes[k], o.codes[k], now, c)
                ELSE IF k \in DOMAIN m.codes THEN m.codes[k] ELSE CClone(o.codes[k], now, c)],
   hist |-> HAppend(m.hist, o.hist)]
ResetM(m, now, n) == [total |-> FreshC(n), neterr |-> FreshC(n), codes |-> NoCodes, hist |-> HReset(m.hist, now)]

Total(m, now, c) == CCount(m.total, now, c)
NetErr(m, now, c) == CCount(m.neterr, now, c)
CodeCounts(m, now, c) == LET nz == {k \in DOMAIN m.codes : CCount(m.codes[k], now, c) # 0} IN [k \in nz |-> CCount(m.codes[k], now, c)]
SumCodes(m, now, c) ==
  LET RECURSIVE S(_) S(D) == IF D = {} THEN 0 ELSE LET k == CHOOSE x \in D : TRUE IN CCount(m.codes[k], now, c) + S(D \ {k})
  IN S(DOMAIN m.codes)
NetErrCodes(m, now, c) ==
  (IF 502 \in DOMAIN m.codes THEN CCount(m.codes[502], now, c) ELSE 0) + (IF 504 \in DOMAIN m.codes THEN CCount(m.codes[504], now, c) ELSE 0)

(* -------------------------------- contract -------------------------------- *)
(* what a reader may rely on, whatever the history of records, exports, appends and resets:                              *)
(*   the total equals the sum over the status codes, the network errors equal the 502s plus the 504s,                    *)
(*   an append adds exactly what the other collector reports at that instant, an export is a snapshot that then lives    *)
(*   its own life, a reset empties everything                                                                            *)
Consistent(m, now, c) == Total(m, now, c) = SumCodes(m, now, c) /\ NetErr(m, now, c) = NetErrCodes(m, now, c)
=============================================================================
