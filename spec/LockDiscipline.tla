--------------------------- MODULE LockDiscipline ---------------------------
(***************************************************************************)
(* C09 at the design level: the shared counters of memmetrics.RTMetrics    *)
(* (a RollingCounter is a plain slice: Inc = read, add, write; Count also  *)
(* writes, because it expires old buckets first) used by concurrent        *)
(* Record / read calls.  Each process executes                             *)
(*     [acquire] ; load ; store ; [release]                                *)
(* Guard selects the discipline:                                           *)
(*   "none"   - no lock at all (RTMetrics.total / netErrors as found)      *)
(*   "rlock"  - readers hold a shared lock while Count() writes (the       *)
(*              per-status counters as found: mutation under RLock)        *)
(*   "mutex"  - every access under one exclusive lock (repaired code)      *)
(* Invariant at quiescence: no increment is lost.  A state in which two    *)
(* processes are between load and store with at least one writer is a      *)
(* data race (what the race detector reports).                             *)
(***************************************************************************)
EXTENDS Integers, FiniteSets, TLC
CONSTANTS Writers, Readers, Guard
VARIABLES val, pc, tmp, excl, shared
vars == <<val, pc, tmp, excl, shared>>
Procs == Writers \cup Readers

Init == val = 0 /\ pc = [p \in Procs |-> "start"] /\ tmp = [p \in Procs |-> 0] /\ excl = {} /\ shared = {}

Acquire(p) ==
  /\ pc[p] = "start"
  /\ CASE Guard = "none" -> UNCHANGED <<excl, shared>>
       [] Guard = "mutex" -> excl = {} /\ shared = {} /\ excl' = {p} /\ UNCHANGED shared
       [] Guard = "rlock" -> IF p \in Writers
                               THEN excl = {} /\ shared = {} /\ excl' = {p} /\ UNCHANGED shared
                               ELSE excl = {} /\ shared' = shared \cup {p} /\ UNCHANGED excl
  /\ pc' = [pc EXCEPT ![p] = "load"] /\ UNCHANGED <<val, tmp>>
Load(p) == /\ pc[p] = "load" /\ tmp' = [tmp EXCEPT ![p] = val] /\ pc' = [pc EXCEPT ![p] = "store"]
           /\ UNCHANGED <<val, excl, shared>>
(* a writer adds one; a reader's Count() rewrites the slot it cleaned (same value it loaded) *)
Store(p) == /\ pc[p] = "store"
            /\ val' = IF p \in Writers THEN tmp[p] + 1 ELSE tmp[p]
            /\ pc' = [pc EXCEPT ![p] = "done"] /\ excl' = excl \ {p} /\ shared' = shared \ {p}
            /\ UNCHANGED tmp
Next == \E p \in Procs : Acquire(p) \/ Load(p) \/ Store(p)
Spec == Init /\ [][Next]_vars

InCritical(p) == pc[p] = "store"
NoLostUpdate == (\A p \in Procs : pc[p] = "done") => val = Cardinality(Writers)
NoDataRace == \A p, q \in Procs : (p # q /\ InCritical(p) /\ InCritical(q)) => FALSE
=============================================================================
