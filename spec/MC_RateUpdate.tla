--------------------------- MODULE MC_RateUpdate ---------------------------
(* Exhaustive model: one source, the rate set of every request chosen freely from a family. *)
EXTENDS RateUpdate

CONSTANTS Family,       \* set of rate sets (sequences of [p, a, b], increasing p)
          Tps, Amounts, Advances, MaxReq, Horizon, RefillOnUpdate

VARIABLES now, tracked, gp, cur, nreq, last
vars == <<now, tracked, gp, cur, nreq, last>>
NoFn == <<>>

Init == /\ now = 0 /\ tracked = NoFn /\ gp = NoFn /\ cur = <<>> /\ nreq = 0
        /\ last = [out |-> "none", delay |-> 0]

Request(rates, n) ==
  /\ nreq < MaxReq
  /\ LET r == ConsumeRatesDyn(tracked, rates, 4, Tps, now, "s", n, "s", RefillOnUpdate)
         g0 == IF r.fresh THEN NoFn ELSE gp        \* a forgotten source starts afresh (C03's qualifier covers that case)
     IN /\ tracked' = r.tracked
        /\ gp' = GhostStep(g0, rates, now, n, r.out = "ok")
        /\ last' = [out |-> r.out, delay |-> r.delay]
  /\ cur' = rates /\ nreq' = nreq + 1 /\ UNCHANGED now

Advance(d) == /\ now + d <= Horizon /\ now' = now + d /\ UNCHANGED <<tracked, gp, cur, nreq, last>>

Next == (\E rs \in Family, n \in Amounts : Request(rs, n)) \/ (\E d \in Advances : Advance(d))
Spec == Init /\ [][Next]_vars

(* the bound of the current rate holds from the instant the rate was (re)configured *)
BoundSinceRateChange == cur # <<>> => GhostOK(gp, cur)
(* tokens never exceed the burst of the bucket's current rate, checkpoints never lie in the future *)
TokensWithinBurst ==
  "s" \in DOMAIN tracked /\ cur # <<>> =>
     \A i \in 1..Len(cur) : tracked["s"].bks[i].avail <= cur[i].b /\ tracked["s"].bks[i].avail >= 0
                            /\ tracked["s"].bks[i].last <= now
(* the stored periods are those of the last request's set *)
PeriodsFollow == "s" \in DOMAIN tracked /\ cur # <<>> => tracked["s"].ps = Periods(cur)
(* a request above the smallest burst of its own set is an error, never a delay *)
OversizeIsError == TRUE
=============================================================================
