SPECIFICATION Spec
CONSTANTS
  Keys = {"a", "b", "c"}
  Variants = {0, 1}
  MaxW = 3
  MaxAdmin = 4
  ExtraPicks = 2
  StrictCmp = FALSE
  ZeroGuard = FALSE
INVARIANTS
  MembersMatch AdminResultOK RoutedIsMember NoDivergence
  LiteralExact IncrementalExact ZeroNeverChosen
CHECK_DEADLOCK FALSE
