------------------------------ MODULE MC_Sticky ------------------------------
(* Sessions of a client against a pool that changes between requests.        *)
EXTENDS Sticky
CONSTANTS Keys, Vars, Codecs, Kinds, Advances, MaxSteps, AsIsHash, AsIsSplit
VARIABLES codec, var, pool, now, jar, last, n
vars == <<codec, var, pool, now, jar, last, n>>

NoCookie == [kind |-> "none", for |-> "", at |-> 0, by |-> "raw", var |-> "plain"]
Init == /\ codec \in Codecs /\ var \in [Keys -> Vars] /\ pool \in (SUBSET Keys \ {{}}) /\ now = 0
        /\ jar = NoCookie /\ last = [op |-> "init"] /\ n = 0

(* the client presents its jar cookie as is, or a damaged / foreign version of it *)
Present(kind) == IF kind = "issued" THEN jar
                 ELSE IF kind = "none" THEN NoCookie
                 ELSE [jar EXCEPT !.kind = kind]
Request(kind, pick) ==
  /\ n < MaxSteps /\ pick \in pool
  /\ (kind \notin {"none", "garbage"} => jar.kind = "issued")
  /\ LET c == Present(kind)
         hit == Lookup(c, codec, pool, now, AsIsHash, AsIsSplit)
         to == IF hit # "" THEN hit ELSE pick
         must == ValidFor(c, codec, now) /\ c.for \in pool
     IN /\ last' = [op |-> "req", must |-> must, for |-> c.for, to |-> to, stuck |-> hit # "", minted |-> hit = ""]
        /\ jar' = IF hit = "" THEN [kind |-> "issued", for |-> to, at |-> now, by |-> MintBy(codec), var |-> var[to]] ELSE jar
  /\ n' = n + 1 /\ UNCHANGED <<codec, var, pool, now>>
Remove(k) == /\ n < MaxSteps /\ k \in pool /\ pool # {k} /\ pool' = pool \ {k} /\ n' = n + 1
             /\ last' = [op |-> "admin"] /\ UNCHANGED <<codec, var, now, jar>>
Add(k) == /\ n < MaxSteps /\ k \notin pool /\ pool' = pool \cup {k} /\ n' = n + 1
          /\ last' = [op |-> "admin"] /\ UNCHANGED <<codec, var, now, jar>>
Advance(d) == /\ n < MaxSteps /\ now' = now + d /\ n' = n + 1 /\ last' = [op |-> "admin"] /\ UNCHANGED <<codec, var, pool, jar>>

Next == \/ \E kind \in Kinds, p \in Keys : Request(kind, p)
        \/ \E k \in Keys : Remove(k) \/ Add(k)
        \/ \E d \in Advances : Advance(d)
Spec == Init /\ [][Next]_vars

StuckToCookieServer == last.op = "req" /\ last.must => last.to = last.for
RoutedInsidePool == last.op = "req" => last.to \in pool
FreshCookieWhenNotStuck == last.op = "req" /\ ~last.stuck => last.minted /\ jar.for = last.to /\ jar.kind = "issued"
=============================================================================
