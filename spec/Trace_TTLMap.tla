----------------------------- MODULE Trace_TTLMap -----------------------------
(* Trace specification for the real TTL map (reached through verifhook).        *)
EXTENDS TTLMap, TraceBase
VARIABLES l, scn, cap, now, e, ref, bad, drift, nev,
          tied   \* an invisible eviction had several equally near candidates: the model can no longer know the map's content
vars == <<l, scn, cap, now, e, ref, bad, drift, nev, tied>>
Ev == Log[l]
IsEvent(x) == l <= Len(Log) /\ Log[l].e = x /\ l' = l + 1
Init == l = 1 /\ scn = "" /\ cap = 1 /\ now = 0 /\ e = <<>> /\ ref = <<>> /\ bad = <<>> /\ drift = <<>> /\ nev = 0 /\ tied = FALSE
Reset == /\ IsEvent("Reset") /\ scn' = Ev.scn /\ cap' = Ev.cfg.cap /\ now' = 0 /\ e' = <<>> /\ ref' = <<>>
         /\ tied' = FALSE /\ UNCHANGED <<bad, drift>> /\ nev' = nev + 1
Adv == /\ IsEvent("Adv") /\ now' = now + Ev.d /\ UNCHANGED <<scn, cap, e, ref, bad, drift, tied>> /\ nev' = nev + 1

(* missing = the keys that were live (unexpired) before the operation and that the map no longer finds afterwards; *)
(* an expired entry cannot be probed without deleting it, so the eviction of an expired entry is invisible          *)
SetEv ==
  /\ IsEvent("Set")
  /\ LET need == NeedsVictim(e, cap, Ev.k, Ev.ttl)
         gone == {Ev.missing[i] : i \in 1..Len(Ev.missing)}
         someExpired == \E k \in DOMAIN e : e[k].exp <= now
         vic == IF gone # {} THEN CHOOSE k \in gone : TRUE ELSE (IF need THEN CHOOSE k \in Nearest(e) : TRUE ELSE "")
         r == SetOp(e, cap, now, Ev.k, Ev.v, Ev.ttl, vic)
     IN
     /\ bad' = ReportAll(bad, scn, l, <<
          <<Ev.err = (Ev.ttl <= 0), "C14.TTL.SetFailsOnlyForBadTtl">>,
          <<~need => gone = {}, "C14.TTL.NoEntryLostBelowCapacity">>,
          <<need => Cardinality(gone) <= 1 /\ (gone = {} => someExpired), "C14.TTL.ExactlyOneEntryForgotten">>,
          <<(need /\ gone # {}) => gone \subseteq Nearest(e), "C14.TTL.ForgetsNearestExpiry">>,
          <<Ev.len <= (IF EffCap(cap) = 0 THEN 1 ELSE EffCap(cap)), "C14.TTL.LenWithinCapacity">> >>)
     /\ e' = r.e
     /\ ref' = IF r.err THEN ref ELSE Put(IF vic # "" /\ vic \in DOMAIN ref THEN Drop(ref, vic) ELSE ref, Ev.k, [val |-> Ev.v, exp |-> now + Ev.ttl])
     /\ tied' = (tied \/ (need /\ gone = {} /\ Cardinality(Nearest(e)) > 1))
     /\ drift' = IF tied' \/ Ev.len = Cardinality(DOMAIN r.e) THEN drift ELSE Report(drift, scn, l, "ttlmap.set")
  /\ UNCHANGED <<scn, cap, now>> /\ nev' = nev + 1
GetEv ==
  /\ IsEvent("Get")
  /\ LET r == GetOp(e, now, Ev.k)
         want == Ev.k \in DOMAIN ref /\ ref[Ev.k].exp > now IN
     /\ bad' = ReportAll(bad, scn, l, <<
          <<Ev.found = want, IF want THEN "C14.TTL.LiveEntryFound" ELSE "C14.TTL.ExpiredOrForgottenEntryAbsent">>,
          <<(Ev.found /\ want) => Ev.val = ref[Ev.k].val, "C14.TTL.ValueIsLastSet">> >>)
     /\ e' = r.e
     /\ drift' = IF tied \/ r.found = Ev.found THEN drift ELSE Report(drift, scn, l, "ttlmap.get")
  /\ UNCHANGED <<scn, cap, now, ref, tied>> /\ nev' = nev + 1
End == /\ IsEvent("End")
       /\ JsonSerialize("result.json", [bad |-> bad, drift |-> drift, events |-> nev, lines |-> l])
       /\ UNCHANGED vars
Next == Reset \/ Adv \/ SetEv \/ GetEv \/ End
Spec == Init /\ [][Next]_vars
=============================================================================
