--------------------------- MODULE RebalancerE2E ---------------------------
(***************************************************************************)
(* Composition: the rebalancer with its DEFAULT meter.  NewRebalancer      *)
(* gives every server a codeMeter = memmetrics.RatioCounter of two         *)
(* RollingCounters (N buckets of one second): responses with a status in   *)
(* 500..504 count as A, all others as B;                                   *)
(*     Rating  = A / (A + B) over the window (0 when empty)                *)
(*     IsReady = countedBuckets(A) + countedBuckets(B) >= N                *)
(* countedBuckets grows by one whenever an increment lands in a bucket      *)
(* other than the previous one and never shrinks: a meter that became      *)
(* ready stays ready (also through idle periods longer than the window).   *)
(*                                                                         *)
(* Ratings are rationals; for the anomaly split they are brought to a      *)
(* common denominator (the split is homogeneous, so scaling is exact).     *)
(* A rating exactly ON the threshold is where float64 may decide either    *)
(* way: Tie() marks those steps and the trace specification skips them.    *)
(***************************************************************************)
EXTENDS Rebalancer, RollingCounter

CounterCfg(n, tps) == [n |-> n, r |-> tps, tps |-> tps, off |-> 0, u0 |-> 0, asis |-> FALSE]
FreshCounter(n) == [vals |-> Zeros(n), last |-> Never, lb |-> -1, cb |-> 0]
FreshMeter(n) == [a |-> FreshCounter(n), b |-> FreshCounter(n)]

IncCounter(ct, now, c) ==
  LET bk == Bucket(now, c) IN
  [vals |-> IncVals(ct.vals, ct.last, now, 1, c), last |-> now,
   lb |-> IF ct.cb < c.n /\ ct.lb # bk THEN bk ELSE ct.lb,
   cb |-> IF ct.cb < c.n /\ ct.lb # bk THEN ct.cb + 1 ELSE ct.cb]

IsErrCode(code) == code >= 500 /\ code < 505
Record(m, code, now, c) == IF IsErrCode(code) THEN [m EXCEPT !.a = IncCounter(@, now, c)]
                           ELSE [m EXCEPT !.b = IncCounter(@, now, c)]
CountA(m, now, c) == CountOf(m.a.vals, m.a.last, now, c)
CountB(m, now, c) == CountOf(m.b.vals, m.b.last, now, c)
Ready(m, c) == m.a.cb + m.b.cb >= c.n

(* ratings of a sequence of meters as integers over a common denominator *)
Totals(ms, now, c) == [i \in 1..Len(ms) |-> CountA(ms[i], now, c) + CountB(ms[i], now, c)]
Denom(ts) == LET RECURSIVE P(_) P(i) == IF i = 0 THEN 1 ELSE (IF ts[i] = 0 THEN 1 ELSE ts[i]) * P(i - 1) IN P(Len(ts))
Scaled(ms, now, c) ==
  LET ts == Totals(ms, now, c)  L == Denom(ts) IN
  [i \in 1..Len(ms) |-> IF ts[i] = 0 THEN 0 ELSE (CountA(ms[i], now, c) * L) \div ts[i]]
Tie(vals) ==
  LET nv == IF Len(vals) % 2 = 0 THEN Append(vals, 0) ELSE vals
      m == MedianOdd(nv)
      mad == MedianOdd([i \in 1..Len(nv) |-> Abs(nv[i] - m)])
  IN \E j \in 1..Len(vals) : 2 * vals[j] = 3 * (m + mad) /\ vals[j] > 0

(* one request served by server number i with status `code` at time now:  recordMetrics, then adjustWeights *)
ServeE2E(srv, ms, timer, now, backoff, cap, i, code, c) ==
  LET ms1 == [ms EXCEPT ![i] = Record(@, code, now, c)]
      vals == Scaled(ms1, now, c)
      rdy == [j \in 1..Len(ms1) |-> Ready(ms1[j], c)]
      ad == Adjust(srv, timer, now, backoff, cap, vals, rdy, FALSE)
  IN [srv |-> ad.srv, ms |-> ms1, timer |-> ad.timer, changed |-> ad.changed, vals |-> vals, rdy |-> rdy, tie |-> Tie(vals)]
=============================================================================
