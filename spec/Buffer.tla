------------------------------- MODULE Buffer -------------------------------
(***************************************************************************)
(* buffer.Buffer (buffer.go, threshold.go) on top of mailgun/multibuf.     *)
(* Per request a sequential procedure:                                     *)
(*   CheckDeclared -> ReadBody (memory / spill) -> attempt loop            *)
(*     { Attempt k -> over-limit? -> expectBody/Reader -> Decide }         *)
(*   -> Deliver -> Cleanup                                                 *)
(* Sizes are bytes.  cfg = [memReq, maxReq, memResp, maxResp, ast]         *)
(*   (max <= 0 : unlimited; mem = 0 : the 1 MiB default; ast = retry AST   *)
(*   or [k |-> "none"]).                                                   *)
(* req = [method, framing, size]                                           *)
(* scripts = sequence (one per attempt) of                                 *)
(*   [status, writes (sequence of chunk sizes), cl0, grpc]                 *)
(*   status 0 = the handler never calls WriteHeader.                       *)
(* The switches describe the code as found:                                *)
(*   ImplicitPanics : WriteHeader(0) is passed through (panics)            *)
(*   EmptyFails     : no Write at all -> "no data ready" -> 500            *)
(*   LeakNoReader   : a spilled response whose reader is never taken       *)
(*                    leaves its temp file behind                          *)
(***************************************************************************)
EXTENDS Integers, Sequences, FiniteSets, TLC

MiB == 1048576
SumSeq(s) == LET RECURSIVE S(_) S(i) == IF i = 0 THEN 0 ELSE s[i] + S(i - 1) IN S(Len(s))

(* ------------------------- retry expressions ------------------------- *)
CmpInt(x, op, c) ==
  CASE op = "<" -> x < c [] op = "<=" -> x <= c [] op = ">" -> x > c
    [] op = ">=" -> x >= c [] op = "==" -> x = c [] op = "!=" -> x # c
RECURSIVE EvalRetry(_, _)
EvalRetry(ast, ctx) ==     \* ctx = [attempt, code, method]
  CASE ast.k = "and" -> EvalRetry(ast.l, ctx) /\ EvalRetry(ast.r, ctx)
    [] ast.k = "or" -> EvalRetry(ast.l, ctx) \/ EvalRetry(ast.r, ctx)
    [] ast.k = "attempts" -> CmpInt(ctx.attempt, ast.op, ast.c)
    [] ast.k = "code" -> CmpInt(ctx.code, ast.op, ast.c)
    [] ast.k = "method" -> IF ast.op = "==" THEN ctx.method = ast.m ELSE ctx.method # ast.m
    [] ast.k = "neterr" -> ctx.code \in {502, 504}
    [] ast.k = "none" -> FALSE
MaxAttempts == 10     \* DefaultMaxRetryAttempts: the handler runs at most 11 times

(* ------------------------- implementation ------------------------- *)
EffMem(mem, max) == LET m == IF mem = 0 THEN MiB ELSE mem IN IF max > 0 /\ max < m THEN max ELSE m
ReqTooLarge(cfg, req) == cfg.maxReq > 0 /\ req.size > cfg.maxReq

(* the response writer: returns [over, total, spilled] *)
RECURSIVE WriteAll(_, _, _, _, _)
WriteAll(writes, i, total, cfg, over) ==
  IF i > Len(writes) THEN [over |-> over, total |-> total]
  ELSE IF cfg.maxResp > 0 /\ writes[i] + total > cfg.maxResp
         THEN WriteAll(writes, i + 1, total, cfg, TRUE)
         ELSE WriteAll(writes, i + 1, total + writes[i], cfg, over)
RespMem(cfg) == IF cfg.memResp = 0 THEN MiB ELSE cfg.memResp

ExpectBody(req, sc) ==
  /\ req.method # "HEAD"
  /\ ~(sc.status >= 100 /\ sc.status < 200) /\ sc.status # 204 /\ sc.status # 304
  /\ ~sc.cl0 /\ ~sc.grpc

Sc(scripts, k) == scripts[IF k > Len(scripts) THEN Len(scripts) ELSE k]   \* the last script repeats

(* outcome = [inv, status, from, body, files, panic] ; from = attempt whose response was delivered (0 = none) *)
RECURSIVE Attempts(_, _, _, _, _, _, _, _)
Attempts(cfg, req, scripts, k, files, ImplicitPanics, EmptyFails, LeakNoReader) ==
  LET sc == Sc(scripts, k)
      w == WriteAll(sc.writes, 1, 0, cfg, FALSE)
      spilled == w.total > RespMem(cfg)
      wrote == Len(sc.writes) > 0
      eb == ExpectBody(req, sc)
      leak(readerTaken) == IF spilled /\ ~readerTaken /\ LeakNoReader THEN 1 ELSE 0
  IN IF w.over
       THEN [inv |-> k, status |-> 500, from |-> 0, body |-> 0, files |-> files + leak(FALSE), panic |-> FALSE]
     ELSE IF eb /\ ~wrote /\ EmptyFails
       THEN [inv |-> k, status |-> 500, from |-> 0, body |-> 0, files |-> files, panic |-> FALSE]
     ELSE LET taken == eb /\ wrote
              retry == cfg.ast.k # "none" /\ k <= MaxAttempts /\
                       EvalRetry(cfg.ast, [attempt |-> k, code |-> sc.status, method |-> req.method])
          IN IF ~retry
               THEN IF sc.status = 0 /\ ImplicitPanics
                      THEN [inv |-> k, status |-> 0, from |-> k, body |-> 0, files |-> files + leak(taken), panic |-> TRUE]
                      ELSE [inv |-> k, status |-> IF sc.status = 0 THEN 200 ELSE sc.status, from |-> k,
                            body |-> IF eb THEN w.total ELSE 0, files |-> files + leak(taken), panic |-> FALSE]
               ELSE Attempts(cfg, req, scripts, k + 1, files + leak(taken), ImplicitPanics, EmptyFails, LeakNoReader)

Run(cfg, req, scripts, ImplicitPanics, EmptyFails, LeakNoReader) ==
  IF ReqTooLarge(cfg, req)
    THEN [inv |-> 0, status |-> 413, from |-> 0, body |-> 0, files |-> 0, panic |-> FALSE]
    ELSE Attempts(cfg, req, scripts, 1, 0, ImplicitPanics, EmptyFails, LeakNoReader)

(* ------------------------- contract ------------------------- *)
(* number of handler invocations the property prescribes, given the attempts' outcomes *)
(* implicit gives the code an attempt without explicit status is read as (0 or 200: the property leaves it open) *)
RECURSIVE WantInv(_, _, _, _, _)
WantInv(cfg, req, scripts, k, implicit) ==
  IF cfg.ast.k = "none" THEN 1
  ELSE IF k > MaxAttempts THEN k
  ELSE LET st == Sc(scripts, k).status
           code == IF st = 0 THEN implicit ELSE st IN
       IF EvalRetry(cfg.ast, [attempt |-> k, code |-> code, method |-> req.method])
         THEN WantInv(cfg, req, scripts, k + 1, implicit) ELSE k
RespOver(cfg, sc) == WriteAll(sc.writes, 1, 0, cfg, FALSE).over
=============================================================================
