----------------------------- MODULE Gen_Conn -----------------------------
EXTENDS ConnLimit, Sequences, Json
CONSTANT Depth
VARIABLE hist
GInit == Init /\ hist = <<>>
GNext ==
  /\ Len(hist) < Depth
  /\ \/ \E r \in Reqs, s \in Sources : Arrive(r, s) /\ Ordered' /\ hist' = Append(hist, [op |-> "start", r |-> r, src |-> s])
     \/ \E r \in Reqs : Return(r) /\ hist' = Append(hist, [op |-> "finish", r |-> r, how |-> "return"])
     \/ \E r \in Reqs : Panic(r) /\ hist' = Append(hist, [op |-> "finish", r |-> r, how |-> "panic"])
GSpec == GInit /\ [][GNext]_<<vars, hist>>
Done == \A r \in Reqs : st[r] \in {"rej", "done"}
Emit == (Len(hist) = Depth \/ Done) => PrintT(ToJson([max |-> max, steps |-> hist]))
=============================================================================
