---------------------------- MODULE ConnLimitInd ----------------------------
(* Unbounded-history argument for C04 (Apalache): the conjunction IndInv is    *)
(* inductive for the acquire/release critical sections of connlimit.go, for    *)
(* every limit up to MaxLimit and any number of requests over the fixed        *)
(* request-slot set (slots are recycled, so histories are unbounded).          *)
EXTENDS Integers, FiniteSets

CONSTANTS
    \* @type: Bool;
    AdmitAtLimit,      \* mutant: admits while conn = max
    \* @type: Set(Str);
    Sources,
    \* @type: Set(Int);
    Slots,
    \* @type: Int;
    MaxLimit

VARIABLES
    \* @type: Int;
    max,
    \* @type: Str -> Int;
    conn,
    \* @type: Int -> Str;
    st,
    \* @type: Int -> Str;
    rsrc

CInit == Sources = {"s1", "s2"} /\ Slots = {1, 2, 3, 4, 5} /\ MaxLimit = 3 /\ AdmitAtLimit = FALSE
CInitMutant == Sources = {"s1", "s2"} /\ Slots = {1, 2, 3, 4, 5} /\ MaxLimit = 3 /\ AdmitAtLimit = TRUE

Running(s) == {r \in Slots : st[r] = "run" /\ rsrc[r] = s}

TypeOK == /\ max \in 1..MaxLimit
          /\ conn \in [Sources -> 0..5]
          /\ st \in [Slots -> {"idle", "run"}]
          /\ rsrc \in [Slots -> Sources]

(* the model's counter equals the number of requests really inside the handler, and never exceeds the limit *)
IndInv == /\ TypeOK
          /\ \A s \in Sources : conn[s] = Cardinality(Running(s))
          /\ \A s \in Sources : conn[s] <= max

Init == /\ max \in 1..MaxLimit
        /\ conn = [s \in Sources |-> 0]
        /\ st = [r \in Slots |-> "idle"]
        /\ rsrc = [r \in Slots |-> "s1"]

IndInit == IndInv

Admit(r, s) == /\ st[r] = "idle" /\ (conn[s] < max \/ (AdmitAtLimit /\ conn[s] = max))
               /\ st' = [st EXCEPT ![r] = "run"] /\ rsrc' = [rsrc EXCEPT ![r] = s]
               /\ conn' = [conn EXCEPT ![s] = @ + 1] /\ UNCHANGED max
Reject(r, s) == /\ st[r] = "idle" /\ conn[s] >= max /\ UNCHANGED <<max, conn, st, rsrc>>
End(r) == /\ st[r] = "run"      \* return or panic: the deferred release runs in both cases
          /\ st' = [st EXCEPT ![r] = "idle"]
          /\ conn' = [conn EXCEPT ![rsrc[r]] = @ - 1] /\ UNCHANGED <<max, rsrc>>
Next == \E r \in Slots : (\E s \in Sources : Admit(r, s) \/ Reject(r, s)) \/ End(r)

NeverExceeds == \A s \in Sources : Cardinality(Running(s)) <= max
=============================================================================
