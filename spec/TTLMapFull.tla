----------------------------- MODULE TTLMapFull -----------------------------
(***************************************************************************)
(* The rest of holsterv4/collections.TTLMap's public surface, on top of    *)
(* TTLMap.tla (Set / Get): Increment, GetInt, RemoveExpired(n),            *)
(* RemoveLastUsed(n), Len.  Values are integers, or a non-integer value    *)
(* (written NonInt here; the harness stores a string).                     *)
(*                                                                         *)
(* As the code does it (ttlmap.go):                                        *)
(*  Increment(k, v, ttl): ttl <= 0 -> error.  Key absent or expired ->     *)
(*    the value becomes v (an expired entry is overwritten in place: no    *)
(*    eviction even when the map is full); key live with an integer ->     *)
(*    value + v; key live with a non-integer -> error, nothing changes     *)
(*    (not even the lifetime).  A successful call renews the lifetime.     *)
(*  GetInt(k) = Get(k), plus an error for a live non-integer value.        *)
(*  RemoveExpired(n): pops entries in expiry order while the nearest one   *)
(*    is expired, at most n; returns how many.                             *)
(*  RemoveLastUsed(n): pops the n entries nearest to expiry, expired or    *)
(*    not.                                                                 *)
(***************************************************************************)
EXTENDS TTLMap, Sequences

NonInt == -1
IsInt(v) == v >= 0

IncFull(e, cap, now, k, v, ttl, victim) ==
  IF ttl <= 0 THEN [e |-> e, err |-> TRUE, val |-> 0, evicted |-> ""]
  ELSE IF k \in DOMAIN e /\ e[k].exp > now
         THEN IF IsInt(e[k].val)
                THEN [e |-> Put(e, k, [val |-> e[k].val + v, exp |-> now + ttl]), err |-> FALSE, val |-> e[k].val + v, evicted |-> ""]
                ELSE [e |-> e, err |-> TRUE, val |-> 0, evicted |-> ""]
         ELSE LET s == SetOp(e, cap, now, k, v, ttl, victim) IN [e |-> s.e, err |-> FALSE, val |-> v, evicted |-> s.evicted]

GetIntOp(e, now, k) ==
  LET g == GetOp(e, now, k) IN
  IF g.found /\ ~IsInt(g.val) THEN [e |-> g.e, found |-> FALSE, val |-> 0, err |-> TRUE]
  ELSE [e |-> g.e, found |-> g.found, val |-> g.val, err |-> FALSE]

Expired(e, now) == {k \in DOMAIN e : e[k].exp <= now}
Min(a, b) == IF a < b THEN a ELSE b

(* the keys that MAY be among the first n in expiry order: expiry at most the n-th smallest *)
RECURSIVE NthExp(_, _)
NthExp(e, n) == IF n <= 1 \/ Cardinality(Nearest(e)) >= n THEN MinExp(e)
                ELSE LET rest == [x \in DOMAIN e \ Nearest(e) |-> e[x]] IN
                     IF DOMAIN rest = {} THEN MinExp(e) ELSE NthExp(rest, n - Cardinality(Nearest(e)))
MayBeAmongFirst(e, n) == IF DOMAIN e = {} \/ n <= 0 THEN {} ELSE {k \in DOMAIN e : e[k].exp <= NthExp(e, n)}
MustBeAmongFirst(e, n) == IF DOMAIN e = {} \/ n <= 0 THEN {} ELSE
                          IF Cardinality(MayBeAmongFirst(e, n)) <= n THEN MayBeAmongFirst(e, n)
                          ELSE {k \in DOMAIN e : e[k].exp < NthExp(e, n)}

(* removal of a given victim set *)
DropAll(e, ks) == [x \in DOMAIN e \ ks |-> e[x]]
=============================================================================
