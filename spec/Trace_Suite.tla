----------------------------- MODULE Trace_Suite -----------------------------
(***************************************************************************)
(* Validation of executions that were NOT produced by my drivers: the hook *)
(* events recorded while the repository's own test suite runs (built with  *)
(* the verif tag, VERIF_TRACE_FILE set).  Every event carries the identity *)
(* of the emitting object; constructor events (re)start an object's model. *)
(* Nothing but the hook lines is known about the tests, so every check is  *)
(* stated over what the events themselves say:                             *)
(*   balancer   : a selection names a current member with its current,     *)
(*                positive weight; from the last pool change on, the first *)
(*                W selections are exactly proportional (C01 / C02)        *)
(*   conn limit : reported counts follow acquire / release; never above    *)
(*                the configured maximum; a rejection only when the source *)
(*                is at the maximum (C04)                                  *)
(*   breaker    : transitions are legal, admission agrees with the state,  *)
(*                a trip is preceded by a check that said "yes" (C05/C18)  *)
(*   rate limit : the first request of a source finds no entry, the number *)
(*                of tracked sources stays within the capacity (C14)       *)
(*   rebalancer : adjustments of one rebalancer are at least one back-off  *)
(*                apart on the library clock (C10)                         *)
(***************************************************************************)
EXTENDS RoundRobin, TraceBase

VARIABLES l, rr, cl, cb, tl, rb, bad, nev, aux
vars == <<l, rr, cl, cb, tl, rb, bad, nev, aux>>
Ev == Log[l]
IsEvent(e) == l <= Len(Log) /\ Log[l].e = e /\ l' = l + 1
NoFn == <<>>
Put(f, k, v) == [x \in DOMAIN f \cup {k} |-> IF x = k THEN v ELSE f[x]]
GetOr(f, k, d) == IF k \in DOMAIN f THEN f[k] ELSE d
O == Ev.obj
A(i) == Ev.args[i]
Scn == Ev.comp

Init == l = 1 /\ rr = NoFn /\ cl = NoFn /\ cb = NoFn /\ tl = NoFn /\ rb = NoFn /\ bad = <<>> /\ nev = 0 /\ aux = <<>>

(* ------------------------------ balancer ------------------------------ *)
FreshRR == [m |-> NoFn, n |-> 0, cnt |-> NoFn]
SumMW(m) == LET RECURSIVE S(_) S(D) == IF D = {} THEN 0 ELSE LET k == CHOOSE x \in D : TRUE IN m[k] + S(D \ {k}) IN S(DOMAIN m)
GcdMW(m) == LET RECURSIVE G(_, _) G(D, g) == IF D = {} THEN g ELSE LET k == CHOOSE x \in D : TRUE IN G(D \ {k}, GoGcd(g, m[k])) IN G(DOMAIN m, 0)
WOfM(m) == IF GcdMW(m) = 0 THEN 0 ELSE SumMW(m) \div GcdMW(m)
RRNew == IsEvent("rr.new") /\ rr' = Put(rr, O, FreshRR) /\ UNCHANGED <<cl, cb, tl, rb, bad, aux>> /\ nev' = nev + 1
RRUpsert ==
  /\ IsEvent("rr.upsert")
  /\ LET s == GetOr(rr, O, FreshRR) IN rr' = Put(rr, O, [m |-> Put(s.m, A(1), A(2)), n |-> 0, cnt |-> NoFn])
  /\ UNCHANGED <<cl, cb, tl, rb, bad, aux>> /\ nev' = nev + 1
RRRemove ==
  /\ IsEvent("rr.remove")
  /\ LET s == GetOr(rr, O, FreshRR) IN
     /\ rr' = Put(rr, O, [m |-> [k \in DOMAIN s.m \ {A(1)} |-> s.m[k]], n |-> 0, cnt |-> NoFn])
     /\ bad' = ReportAll(bad, Scn, l, << <<A(1) \in DOMAIN s.m, "S.RemovedServerWasMember">> >>)
  /\ UNCHANGED <<cl, cb, tl, rb, aux>> /\ nev' = nev + 1
RRPick ==
  /\ IsEvent("rr.pick")
  /\ LET s == GetOr(rr, O, FreshRR)
         ok == A(3) = "ok"
         k == A(1)
         W == WOfM(s.m)  g == GcdMW(s.m)
         n2 == s.n + 1
         c2 == GetOr(s.cnt, k, 0) + 1
         member == ok /\ k \in DOMAIN s.m
     IN /\ bad' = ReportAll(bad, Scn, l, <<
              <<ok => member, "S.PickedIsMember">>,
              <<member => (s.m[k] = A(2) /\ A(2) > 0), "S.PickedHasItsPositiveWeight">>,
              <<A(3) = "empty" => DOMAIN s.m = {}, "S.EmptyOnlyWhenNoMembers">>,
              <<A(3) = "allzero" => (DOMAIN s.m # {} /\ \A x \in DOMAIN s.m : s.m[x] = 0), "S.AllZeroOnlyWhenAllZero">>,
              <<(member /\ g > 0 /\ n2 <= W) => c2 <= s.m[k] \div g, "S.WindowExact">>,
              <<(member /\ g > 0 /\ n2 = W) => \A x \in DOMAIN s.m : (IF x = k THEN c2 ELSE GetOr(s.cnt, x, 0)) = s.m[x] \div g, "S.WindowExact">> >>)
        /\ rr' = IF member THEN Put(rr, O, [s EXCEPT !.n = n2, !.cnt = Put(s.cnt, k, c2)]) ELSE rr
  /\ UNCHANGED <<cl, cb, tl, rb, aux>> /\ nev' = nev + 1

(* --------------------------- connection limit --------------------------- *)
CLNew == IsEvent("cl.new") /\ cl' = Put(cl, O, [max |-> A(1), c |-> NoFn]) /\ UNCHANGED <<rr, cb, tl, rb, bad, aux>> /\ nev' = nev + 1
CLAcquire ==
  /\ IsEvent("cl.acquire")
  /\ LET s == GetOr(cl, O, [max |-> -1, c |-> NoFn])  n == GetOr(s.c, A(1), 0) + A(2) IN
     /\ bad' = ReportAll(bad, Scn, l, << <<A(3) = n, "S.ConnCountFollowsAcquire">>,
                                          <<s.max < 0 \/ n <= s.max, "S.NeverAboveMaximum">> >>)
     /\ cl' = Put(cl, O, [s EXCEPT !.c = Put(s.c, A(1), A(3))])
  /\ UNCHANGED <<rr, cb, tl, rb, aux>> /\ nev' = nev + 1
CLRelease ==
  /\ IsEvent("cl.release")
  /\ LET s == GetOr(cl, O, [max |-> -1, c |-> NoFn])  n == GetOr(s.c, A(1), 0) - A(2) IN
     /\ bad' = ReportAll(bad, Scn, l, << <<A(3) = n /\ n >= 0, "S.ConnCountFollowsRelease">> >>)
     /\ cl' = Put(cl, O, [s EXCEPT !.c = Put(s.c, A(1), A(3))])
  /\ UNCHANGED <<rr, cb, tl, rb, aux>> /\ nev' = nev + 1
CLReject ==
  /\ IsEvent("cl.reject")
  /\ LET s == GetOr(cl, O, [max |-> -1, c |-> NoFn]) IN
     bad' = ReportAll(bad, Scn, l, << <<A(3) = GetOr(s.c, A(1), 0), "S.RejectSeesTrueCount">>,
                                       <<s.max < 0 \/ A(3) + A(2) > s.max, "S.RejectOnlyAtMaximum">> >>)
  /\ UNCHANGED <<rr, cl, cb, tl, rb, aux>> /\ nev' = nev + 1

(* -------------------------------- breaker -------------------------------- *)
(* state numbers of the code: 0 standby, 1 tripped, 2 recovering *)
Legal == {<<0, 1>>, <<1, 2>>, <<2, 0>>, <<2, 1>>}
FreshCB == [st |-> 0, yes |-> FALSE]
CBNew == IsEvent("cb.new") /\ cb' = Put(cb, O, FreshCB) /\ UNCHANGED <<rr, cl, tl, rb, bad, aux>> /\ nev' = nev + 1
CBCheck ==
  /\ IsEvent("cb.check")
  /\ cb' = Put(cb, O, [GetOr(cb, O, FreshCB) EXCEPT !.yes = A(1)])
  /\ UNCHANGED <<rr, cl, tl, rb, bad, aux>> /\ nev' = nev + 1
CBState ==
  /\ IsEvent("cb.state")
  /\ LET s == GetOr(cb, O, FreshCB) IN
     /\ bad' = ReportAll(bad, Scn, l, << <<<<s.st, A(1)>> \in Legal, "S.LegalTransition">>,
                                          <<A(1) = 1 => s.yes, "S.TripOnlyAfterConditionHeld">> >>)
     /\ cb' = Put(cb, O, [st |-> A(1), yes |-> FALSE])
  /\ UNCHANGED <<rr, cl, tl, rb, aux>> /\ nev' = nev + 1
CBAdmit ==
  /\ IsEvent("cb.admit")
  /\ LET s == GetOr(cb, O, FreshCB) IN
     bad' = ReportAll(bad, Scn, l, << <<A(2) = s.st, "S.AdmissionSeesTrackedState">>,
                                       <<s.st = 0 => A(1) = "pass", "S.StandbyPasses">>,
                                       <<s.st = 1 => A(1) = "fallback", "S.TrippedShields">> >>)
  /\ UNCHANGED <<rr, cl, cb, tl, rb, aux>> /\ nev' = nev + 1

(* ------------------------------ rate limit ------------------------------ *)
TLNew == IsEvent("tl.new") /\ tl' = Put(tl, O, [cap |-> A(1), seen |-> {}]) /\ UNCHANGED <<rr, cl, cb, rb, bad, aux>> /\ nev' = nev + 1
TLConsume ==
  /\ IsEvent("tl.consume")
  /\ LET s == GetOr(tl, O, [cap |-> -1, seen |-> {}]) IN
     /\ bad' = ReportAll(bad, Scn, l, << <<A(1) \notin s.seen => ~A(3), "S.FirstRequestFindsNoEntry">>,
                                          <<s.cap < 0 \/ A(6) <= s.cap, "S.TrackedWithinCapacity">>,
                                          <<A(6) >= 1, "S.RequestingSourceIsTracked">> >>)
     /\ tl' = Put(tl, O, [s EXCEPT !.seen = @ \cup {A(1)}])
  /\ UNCHANGED <<rr, cl, cb, rb, aux>> /\ nev' = nev + 1

(* ------------------------------ rebalancer ------------------------------ *)
RBNew == IsEvent("rb.new") /\ rb' = Put(rb, O, [backoff |-> A(1), lastAdj |-> -1]) /\ UNCHANGED <<rr, cl, cb, tl, bad, aux>> /\ nev' = nev + 1
RBAdmin == (IsEvent("rb.upsert") \/ IsEvent("rb.remove"))
           /\ rb' = Put(rb, O, [GetOr(rb, O, [backoff |-> 0, lastAdj |-> -1]) EXCEPT !.lastAdj = -1])
           /\ UNCHANGED <<rr, cl, cb, tl, bad, aux>> /\ nev' = nev + 1
RBAdjust ==
  /\ IsEvent("rb.adjust")
  /\ LET s == GetOr(rb, O, [backoff |-> 0, lastAdj |-> -1]) IN
     /\ bad' = ReportAll(bad, Scn, l, << <<s.lastAdj < 0 \/ Ev.t - s.lastAdj >= s.backoff - 1, "S.AdjustmentsABackoffApart">> >>)
     /\ rb' = Put(rb, O, [s EXCEPT !.lastAdj = Ev.t])
  /\ UNCHANGED <<rr, cl, cb, tl, aux>> /\ nev' = nev + 1

End == /\ IsEvent("End")
       /\ JsonSerialize("result.json", [bad |-> bad, drift |-> <<>>, events |-> nev, lines |-> l])
       /\ UNCHANGED <<rr, cl, cb, tl, rb, bad, nev, aux>>
Next == RRNew \/ RRUpsert \/ RRRemove \/ RRPick \/ CLNew \/ CLAcquire \/ CLRelease \/ CLReject \/ CBNew \/ CBCheck \/ CBState \/ CBAdmit
        \/ TLNew \/ TLConsume \/ RBNew \/ RBAdmin \/ RBAdjust \/ End
Spec == Init /\ [][Next]_vars
=============================================================================
