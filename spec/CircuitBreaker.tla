--------------------------- MODULE CircuitBreaker ---------------------------
(***************************************************************************)
(* cbreaker.CircuitBreaker (cbreaker.go, ratio.go, predicates.go) with the *)
(* metrics it reads (memmetrics.RTMetrics: rolling counters of 10 x 1 s,   *)
(* rolling latency histogram).  Time in ticks, tps ticks per second, the   *)
(* origin is second-aligned.                                               *)
(*                                                                         *)
(* Critical sections (CircuitBreaker.m):                                   *)
(*   Admit    = activateFallback: decide pass / fallback for an arrival    *)
(*   Complete = metrics.Record + checkAndSet for a finished request        *)
(* Breaker state  b = [state, until, lastCheck, rstart, a, d]              *)
(* Metrics        resp = sequence of [t, code, lat] recorded since the     *)
(*                last Reset (window arithmetic is applied when read)      *)
(* Config         cfg = [tps, fallback, recovery, check, win, ast]         *)
(***************************************************************************)
EXTENDS Integers, Sequences, FiniteSets, TLC

NoCheck == -1000000        \* lastCheck of a new breaker (zero time)

InitBreaker == [state |-> "standby", until |-> 0, lastCheck |-> NoCheck, rstart |-> 0, a |-> 0, d |-> 0]

(* ---------------- metrics as read by the predicates ---------------- *)
(* mode "impl": bucket arithmetic of the rolling counter (slot(t) >= slot(now) - win + 1)          *)
(* mode "inner" / "outer": the window band of C17, used by the contract                            *)
InWindow(t, now, cfg, mode) ==
  CASE mode = "impl"  -> (t \div cfg.tps) >= (now \div cfg.tps) - cfg.win + 1
    [] mode = "inner" -> now - t < (cfg.win - 1) * cfg.tps
    [] mode = "outer" -> now - t <= cfg.win * cfg.tps

CountCodes(resp, lo, hi, now, cfg, mode) ==
  Cardinality({i \in 1..Len(resp) : resp[i].code >= lo /\ resp[i].code < hi /\ InWindow(resp[i].t, now, cfg, mode)})
CountNetErr(resp, now, cfg, mode) ==
  Cardinality({i \in 1..Len(resp) : resp[i].code \in {502, 504} /\ InWindow(resp[i].t, now, cfg, mode)})
CountTotal(resp, now, cfg, mode) ==
  Cardinality({i \in 1..Len(resp) : InWindow(resp[i].t, now, cfg, mode)})

(* latency quantile in ms over everything recorded since the last reset (HDR histogram semantics:  *)
(* smallest recorded value whose cumulative count reaches floor(q*n/100 + 1/2); 0 when empty)       *)
LatencyAtQuantile(resp, q, cfg) ==
  LET n == Len(resp)
      need == (2 * q * n + 100) \div 200
      lats == {resp[i].lat : i \in 1..n}
      cum(v) == Cardinality({i \in 1..n : resp[i].lat <= v})
  IN IF n = 0 \/ need = 0 THEN 0
     ELSE LET v == CHOOSE x \in lats : cum(x) >= need /\ \A y \in lats : cum(y) >= need => x <= y
          IN (v * 1000) \div cfg.tps

(* x / y  cmp  num / den + eps * (something far smaller than any gap between two ratios of small  *)
(* counts), with exact rational arithmetic; x / 0 is read as 0 (as the code does).  eps in -1..1:    *)
(* the threshold literal sits just below / exactly at / just above the fraction, so that a          *)
(* comparison which is not exact shows at attainable ratios.                                        *)
EpsOf(ast) == IF "eps" \in DOMAIN ast THEN ast.eps ELSE 0
CmpRat(x, y, op, num, den, eps) ==
  LET l == IF y = 0 THEN 0 ELSE 2 * x * den
      r == (IF y = 0 THEN 2 * num ELSE 2 * num * y) + eps
  IN CASE op = "<"  -> l < r
       [] op = "<=" -> l <= r
       [] op = ">"  -> l > r
       [] op = ">=" -> l >= r
       [] op = "==" -> l = r
       [] op = "!=" -> l # r
CmpInt(x, op, c) ==
  CASE op = "<" -> x < c [] op = "<=" -> x <= c [] op = ">" -> x > c
    [] op = ">=" -> x >= c [] op = "==" -> x = c [] op = "!=" -> x # c

RECURSIVE Eval(_, _, _, _, _)
Eval(ast, resp, now, cfg, mode) ==
  CASE ast.k = "and" -> Eval(ast.l, resp, now, cfg, mode) /\ Eval(ast.r, resp, now, cfg, mode)
    [] ast.k = "or"  -> Eval(ast.l, resp, now, cfg, mode) \/ Eval(ast.r, resp, now, cfg, mode)
    [] ast.k = "neterr" ->
         CmpRat(CountNetErr(resp, now, cfg, mode), CountTotal(resp, now, cfg, mode), ast.op, ast.num, ast.den, EpsOf(ast))
    [] ast.k = "coderatio" ->
         CmpRat(CountCodes(resp, ast.a1, ast.a2, now, cfg, mode), CountCodes(resp, ast.b1, ast.b2, now, cfg, mode),
                ast.op, ast.num, ast.den, EpsOf(ast))
    [] ast.k = "latency" -> CmpInt(LatencyAtQuantile(resp, ast.q, cfg), ast.op, ast.ms)

(* ---------------- activateFallback ---------------- *)
(* ramp test of ratioController.allowRequest in exact arithmetic:                                   *)
(*    (a+1)/(a+d+1) < 0.5 * el / dur   <=>   2*dur*(a+1) < el*(a+d+1)                               *)
(* both sides are divided by gcd(2*dur, el) first: recovery periods of months in ticks of a second  *)
(* then stay inside TLC's 32-bit integers when the arrivals sit on a coarse grid                    *)
RECURSIVE GCD(_, _)
GCD(x, y) == IF y = 0 THEN x ELSE GCD(y, x % y)
RampL(a1, el, dur) == ((2 * dur) \div GCD(2 * dur, el)) * a1          \* a1 = passed requests counted
RampR(tot, el, dur) == (el \div GCD(2 * dur, el)) * tot                \* tot = all requests counted
RampAllows(a, d, el, dur) == RampL(a + 1, el, dur) < RampR(a + d + 1, el, dur)
RampTie(a, d, el, dur) == RampL(a + 1, el, dur) = RampR(a + d + 1, el, dur)

(* returns [pass, b, trans] ; trans = sequence of states entered.  tieAllow resolves the float tie. *)
Admit(b, now, cfg, tieAllow) ==
  IF b.state = "standby" THEN [pass |-> TRUE, b |-> b, trans |-> <<>>]
  ELSE IF b.state = "tripped" /\ now < b.until THEN [pass |-> FALSE, b |-> b, trans |-> <<>>]
  ELSE
    LET enter == b.state = "tripped"
        b1 == IF enter THEN [b EXCEPT !.state = "recovering", !.until = now + cfg.recovery,
                                      !.rstart = now, !.a = 0, !.d = 0] ELSE b
        t1 == IF enter THEN <<"recovering">> ELSE <<>>
    IN IF now > b1.until
         THEN [pass |-> TRUE, b |-> [b1 EXCEPT !.state = "standby", !.until = now], trans |-> Append(t1, "standby")]
       ELSE LET el == now - b1.rstart
                allow == RampAllows(b1.a, b1.d, el, cfg.recovery) \/ (tieAllow /\ RampTie(b1.a, b1.d, el, cfg.recovery))
            IN IF allow THEN [pass |-> TRUE, b |-> [b1 EXCEPT !.a = @ + 1], trans |-> t1]
               ELSE [pass |-> FALSE, b |-> [b1 EXCEPT !.d = @ + 1], trans |-> t1]

(* ---------------- serve() tail: Record then checkAndSet ---------------- *)
(* returns [b, resp, trans, evaluated, cond] *)
Complete(b, resp, now, code, lat, cfg) ==
  LET resp1 == Append(resp, [t |-> now, code |-> code, lat |-> lat])
      due == b.lastCheck = NoCheck \/ now > b.lastCheck
  IN IF ~due THEN [b |-> b, resp |-> resp1, trans |-> <<>>, evaluated |-> FALSE, cond |-> FALSE]
     ELSE LET b1 == [b EXCEPT !.lastCheck = now + cfg.check] IN
          IF b.state = "tripped" THEN [b |-> b1, resp |-> resp1, trans |-> <<>>, evaluated |-> FALSE, cond |-> FALSE]
          ELSE LET cnd == Eval(cfg.ast, resp1, now, cfg, "impl") IN
               IF cnd THEN [b |-> [b1 EXCEPT !.state = "tripped", !.until = now + cfg.fallback],
                            resp |-> <<>>, trans |-> <<"tripped">>, evaluated |-> TRUE, cond |-> TRUE]
               ELSE [b |-> b1, resp |-> resp1, trans |-> <<>>, evaluated |-> TRUE, cond |-> FALSE]

(* Complete with the outcome of the evaluation supplied (used by the trace spec to follow the code where *)
(* the histogram's rounding decides)                                                                     *)
CompleteForced(b, resp, now, code, lat, cfg, trip) ==
  LET resp1 == Append(resp, [t |-> now, code |-> code, lat |-> lat])
      due == b.lastCheck = NoCheck \/ now > b.lastCheck
      b1 == IF due THEN [b EXCEPT !.lastCheck = now + cfg.check] ELSE b
  IN IF trip THEN [b |-> [b1 EXCEPT !.state = "tripped", !.until = now + cfg.fallback], resp |-> <<>>]
     ELSE [b |-> b1, resp |-> resp1]

(* the contract reads the metrics only when no record sits in the band between the guaranteed *)
(* window (win-1 steps) and the maximal one (win steps): then every counter is exact           *)
Ambiguous(resp, now, cfg) ==
  \E i \in 1..Len(resp) : (cfg.win - 1) * cfg.tps <= now - resp[i].t /\ now - resp[i].t <= cfg.win * cfg.tps

(* drop records no window can see any more (keeps the model finite); only for count predicates *)
PruneResp(resp, now, cfg) == SelectSeq(resp, LAMBDA e : now - e.t <= (cfg.win + 1) * cfg.tps)

LegalMove(from, to) == <<from, to>> \in {<<"standby", "tripped">>, <<"tripped", "recovering">>,
                                           <<"recovering", "standby">>, <<"recovering", "tripped">>}
=============================================================================
