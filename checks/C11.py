"""C11 - sticky sessions pin a client to its server and degrade to normal balancing."""
import random

import vlib
from vlib import Raw, Def
import rrcommon as R

VARS = {"plain": 0, "userq": 1, "user": 2, "query": 3, "pipeq": 4, "longq": 5}
CODECS = [["raw"], ["hash"], ["aes"], ["aesttl"], ["raw", "hash"], ["hash", "aesttl"], ["aes", "raw"], ["aesttl", "hash"]]
KINDS = ["none", "issued", "trunc", "flip", "otherkey", "garbage"]


def codec_str(c):
    return c[0] if len(c) == 1 else "fb:%s>%s" % (c[0], c[1])


def consts(maxsteps, asishash=False, asissplit=False, depth=None, advances=(30, 61)):
    c = {"Keys": Raw('{"a", "b", "c"}'), "Vars": Raw('{"plain", "userq", "pipeq", "longq"}'),
         "Codecs": Def("{" + ", ".join("<<" + ", ".join('"%s"' % x for x in cd) + ">>" for cd in CODECS) + "}"),
         "Kinds": Raw("{" + ", ".join('"%s"' % k for k in KINDS) + "}"),
         "Advances": Raw("{" + ", ".join(map(str, advances)) + "}"), "MaxSteps": maxsteps, "AsIsHash": asishash, "AsIsSplit": asissplit}
    if depth is not None:
        c["Depth"] = depth
    return c


def from_tlc(behs, subjects):
    out = []
    for i, b in enumerate(behs):
        init = b[0]
        vars_ = init["vars"]
        steps = []
        for k in init["pool"]:
            steps.append({"op": "upsert", "k": k, "v": VARS[vars_[k]], "w": 1 + (i + ord(k)) % 3})
        for st in b[1:]:
            st = dict(st)
            if st["op"] == "upsert":
                st["v"] = VARS[vars_[st["k"]]]
                st["w"] = 2
            steps.append(st)
        out.append({"id": "tlc-%d" % i, "cfg": {"subject": subjects[i % len(subjects)], "sticky": codec_str(init["codec"]), "table": i},
                    "steps": steps})
    return out


def seeded(ctx, n, length):
    rng = random.Random(ctx.seed * 5381 + 11)
    out = []
    for i in range(n):
        codec = rng.choice(CODECS)
        keys = R.KEYS[:rng.randint(2, 5)]
        var = {k: rng.randrange(6) for k in keys}
        steps = [{"op": "upsert", "k": k, "v": var[k], "w": rng.choice([1, 2, 5])} for k in keys]
        for _ in range(length):
            x = rng.random()
            if x < 0.6:
                ck = rng.choice(["none", "issued", "issued", "issued", "for:" + rng.choice(keys), "old:" + rng.choice(keys),
                                 "trunc", "flip", "reenc", "otherkey", "garbage",
                                 "trunc:%d" % rng.randint(0, 40), "rand:%d" % rng.randint(0, 40)])
                steps.append({"op": "serve", "cookie": ck, "mut": rng.choice(["none", "none", "path", "all"])})
            elif x < 0.7:
                steps.append({"op": "remove", "k": rng.choice(keys), "v": 0})
            elif x < 0.85:
                k = rng.choice(keys)
                steps.append({"op": "upsert", "k": k, "v": var[k], "w": rng.choice([0, 1, 3])})
            else:
                steps.append({"op": "adv", "d": rng.choice([1, 10, 29, 31, 59, 60, 61, 200])})
        out.append({"id": "rnd-%d" % i, "cfg": {"subject": rng.choice(["rr", "rb"]), "sticky": codec_str(codec), "table": i}, "steps": steps})
    return out


def lifetime_boundary(ctx):
    """sessions around the end of a cookie's lifetime (60 s): presented 1 s before it, exactly at it (in one advance or two), and
    1 s after it, for every chain containing the TTL codec, with other traffic rotating the pool in between."""
    rng = random.Random(ctx.seed * 97 + 11)
    out = []
    j = 0
    for codec in [c for c in CODECS if "aesttl" in c]:
        for parts in ([59], [60], [30, 30], [1, 59], [61], [60, 1], [59, 1], [20, 20, 20]):
            for nk in (2, 3):
                keys = R.KEYS[:nk]
                steps = [{"op": "upsert", "k": k, "v": rng.randrange(6), "w": rng.choice([1, 2])} for k in keys]
                steps += [{"op": "serve", "cookie": "none", "mut": "none"} for _ in range(rng.randint(0, 2))]
                steps.append({"op": "serve", "cookie": "none", "mut": "none"})          # mints the session's cookie
                for d in parts:
                    steps.append({"op": "adv", "d": d})
                    steps.append({"op": "serve", "cookie": "issued", "mut": "none"})
                    steps.append({"op": "serve", "cookie": "issued", "mut": "none"})
                out.append({"id": "life-%d" % j, "cfg": {"subject": rng.choice(["rr", "rb"]), "sticky": codec_str(codec), "table": j},
                            "steps": steps})
                j += 1
    return out


def wrapped_pool(ctx):
    """a rebalancer around a balancer whose pool is (partly) managed on the balancer itself: populated before it was wrapped, or
    a server withdrawn on the balancer. Rebalancer.Servers() reports the balancer's pool - that pool is what a cookie is resolved
    against. (No rebalancer administration call follows a direct one: the rebalancer would write its own records back.)"""
    rng = random.Random(ctx.seed * 193 + 5)
    out = []
    j = 0
    for codec in CODECS:
        for mode in ("prepopulated", "withdrawn", "mixed"):
            nk = rng.randint(2, 4)
            keys = R.KEYS[:nk]
            var = {k: rng.randrange(5) for k in keys}
            steps = []
            for i, k in enumerate(keys):
                direct = mode == "prepopulated" or (mode == "mixed" and i % 2 == 1)
                st = {"op": "upsert", "k": k, "v": var[k], "w": rng.choice([1, 2])}
                if direct:
                    st["direct"] = True
                steps.append(st)
            if mode != "prepopulated":   # rebalancer calls first, direct ones afterwards
                steps.sort(key=lambda s: bool(s.get("direct")))
            for _ in range(nk + 1):      # every server gets a session
                steps.append({"op": "serve", "cookie": "none", "mut": "none"})
            for k in keys:
                steps.append({"op": "serve", "cookie": "for:" + k, "mut": "none"})
                steps.append({"op": "serve", "cookie": "for:" + k, "mut": "none"})
            if mode != "prepopulated":
                gone = rng.choice(keys)
                steps.append({"op": "remove", "k": gone, "v": var[gone], "direct": True})
                for k in keys:
                    steps.append({"op": "serve", "cookie": "for:" + k, "mut": "none"})
                    steps.append({"op": "serve", "cookie": "for:" + k, "mut": "none"})
            out.append({"id": "wrap-%d" % j, "cfg": {"subject": "rb", "sticky": codec_str(codec), "table": j}, "steps": steps})
            j += 1
    return out


def classify(clause, sc, report, evs):
    # which codec and URL class was involved: the defect sites differ per codec
    sticky = sc["cfg"].get("sticky", "")
    return "%s/%s" % (clause, sticky)


def run(ctx, replay):
    quick = ctx.quick()
    if replay:
        return R.replay(ctx, replay, ["C11."])
    inv = ["StuckToCookieServer", "RoutedInsidePool", "FreshCookieWhenNotStuck"]
    vlib.mc(ctx, "MC_Sticky", vlib.make_cfg(constants=consts(5 if quick else 6), invariants=inv), "sticky-sessions")
    vlib.mc(ctx, "MC_Sticky", vlib.make_cfg(constants=consts(4, asishash=True), invariants=inv), "sticky-asis-hash-full-url",
            expect="StuckToCookieServer")
    vlib.mc(ctx, "MC_Sticky", vlib.make_cfg(constants=consts(4, asissplit=True), invariants=inv), "sticky-asis-ttl-split",
            expect="StuckToCookieServer")
    behs = vlib.gen_tlc(ctx, "Gen_Sticky", vlib.make_cfg(spec="GSpec", constants=consts(40, depth=14), invariants=["Emit"]),
                        "gen-sticky", num=200 if quick else 2000, depth=15, seed=ctx.seed)
    scs = from_tlc(behs[:1500 if quick else 20000], ["rr", "rb"]) + seeded(ctx, 80 if quick else 800, 60 if quick else 200)
    scs += lifetime_boundary(ctx)
    scs += wrapped_pool(ctx)
    # malformed values of every length (truncations of an issued cookie, never-issued strings over the cookie alphabet)
    for ci, codec in enumerate(CODECS):
        for subject in ("rr", "rb"):
            steps = [{"op": "upsert", "k": k, "v": 0, "w": 1} for k in "ab"] + [{"op": "serve", "cookie": "none"}]
            for n in range(0, 48):
                steps.append({"op": "serve", "cookie": "trunc:%d" % n})
                steps.append({"op": "serve", "cookie": "rand:%d" % n})
            scs.append({"id": "len-%s-%d" % (subject, ci), "cfg": {"subject": subject, "sticky": codec_str(codec), "table": ci}, "steps": steps})
    tp = vlib.run_scenarios(ctx, "rr", scs, "c11")
    res = vlib.validate_trace(ctx, "Trace_RR", tp, "c11")
    trs = vlib.scenario_traces(tp)
    vlib.collect(ctx, res, {s["id"]: s for s in scs}, "rr", classify, ["C11."], trs)
    ctx.traces += len(scs)
    for s in scs:
        evs = trs.get(s["id"], [])
        if any(e.get("ck") for e in evs) and any(e.get("e") == "Serve" and not e.get("ck") for e in evs):
            ctx.distinct.add(vlib.json.dumps([s["cfg"]["sticky"], s["steps"]], sort_keys=True))
    ctx.samples.append({"scenario": {"id": scs[0]["id"], "cfg": scs[0]["cfg"], "steps": scs[0]["steps"][:10]},
                        "recorded_events": [{k: v for k, v in e.items() if k != "members"} for e in trs[scs[0]["id"]][:10]]})
    return vlib.finish(ctx, "model_checking",
                       "scenario = session of requests presenting no / issued / older-codec / damaged / foreign-key / expired cookies "
                       "against a pool that changes between requests, per codec and fallback chain, servers with userinfo / query / "
                       "'|' in their URLs; distinct = distinct (codec, steps); non-trivial = contains a cookie that must stick and a "
                       "request that must be balanced", R.ASSUMPTIONS + [
                           "cookie validity is decided by the harness from how the cookie was obtained (issued by this configuration, "
                           "untouched, unexpired), never by decoding it"])
