"""X06 (extension, not one of the listed properties) - the whole public surface of the TTL map the rate limiter is built on:
Set, Get, Increment, GetInt, RemoveExpired(n), RemoveLastUsed(n), Len.  TTLMapFull.tla (on TTLMap.tla) models it; MC_TTLMapFull
checks what a user of a counter-with-lifetime relies on; Trace_TTLMapFull validates executions of the real map."""
import random

import vlib
from vlib import Raw

PFX = ["X06."]
INV = ["WithinCapacity", "IncrementIsSum", "GetIntReturnsStored", "RemoveExpiredSparesLive", "RemoveLastUsedNearestFirst", "RefIsInMap"]


def mcc(mo, mutant="none"):
    return {"Keys": Raw('{"a", "b", "c"}'), "Caps": Raw("{0, 1, 2, 3}"), "Ttls": Raw("{0, 1, 3}"), "Advances": Raw("{1, 2}"),
            "MaxOps": mo, "Mutant": mutant}


def scenarios(ctx):
    rng = random.Random(ctx.seed * 7919 + 6)
    quick = ctx.quick()
    out = []
    for i in range(150 if quick else 1500):
        nkeys = rng.choice([2, 3, 4, 6, 10, 20])
        keys = ["k%d" % j for j in range(nkeys)]
        cap = rng.choice([0, 1, 2, 3, nkeys - 1, nkeys, nkeys + 2, 50])
        # distinct lifetimes make every eviction choice visible; a few scenarios use equal lifetimes on purpose
        ties = rng.random() < 0.25
        ttls = [2, 2, 5] if ties else [1, 2, 3, 5, 8, 13, 21, 34]
        steps = []
        for _ in range(60 if quick else 150):
            x = rng.random()
            k = rng.choice(keys)
            ttl = rng.choice(ttls) if rng.random() < 0.95 else rng.choice([0, -1])
            if x < 0.2:
                steps.append({"op": "set", "k": k, "v": rng.choice([0, 1, 7, 100, -1]), "ttl": ttl})
            elif x < 0.5:
                steps.append({"op": "inc", "k": k, "v": rng.choice([1, 1, 2, 5]), "ttl": ttl})
            elif x < 0.6:
                steps.append({"op": "get", "k": k})
            elif x < 0.72:
                steps.append({"op": "getint", "k": k})
            elif x < 0.9:
                steps.append({"op": "adv", "d": rng.choice([1, 1, 1, 2, 3, 5, 8, 40])})
            elif x < 0.95:
                steps.append({"op": "rmexp", "n": rng.choice([0, 1, 2, 3, 100])})
            else:
                steps.append({"op": "rmlast", "n": rng.choice([0, 1, 1, 2, 3])})
        out.append({"id": "ttlfull-%d" % i, "cfg": {"cap": cap}, "steps": steps})
    return out


def classify(clause, sc, report, evs):
    return clause


def run(ctx, replay):
    if replay:
        scs = [vlib.json.load(open(replay))["scenario"]]
    else:
        quick = ctx.quick()
        vlib.mc(ctx, "MC_TTLMapFull", vlib.make_cfg(constants=mcc(5 if quick else 6), invariants=INV), "ttlmapfull", timeout=1500)
        vlib.mc(ctx, "MC_TTLMapFull", vlib.make_cfg(constants=mcc(5, "inc-keeps-expired-value"), invariants=INV),
                "ttlmapfull-mutant-inc-keeps-expired-value", expect="IncrementIsSum")
        vlib.mc(ctx, "MC_TTLMapFull", vlib.make_cfg(constants=mcc(5, "remove-expired-takes-live"), invariants=INV),
                "ttlmapfull-mutant-remove-expired-takes-live", expect="RemoveExpiredSparesLive")
        scs = scenarios(ctx)
    tp = vlib.run_scenarios(ctx, "ttlmapfull", scs, "x06")
    res = vlib.validate_trace(ctx, "Trace_TTLMapFull", tp, "x06")
    trs = vlib.scenario_traces(tp)
    for dft in res.get("drift", []):
        res.setdefault("bad", []).append({"scn": dft["scn"], "line": dft["line"], "clause": "X06.ModelAgrees"})
    res["drift"] = []
    vlib.collect(ctx, res, {s["id"]: s for s in scs}, "ttlmapfull", classify, PFX + ["TRACE."], trs)
    ctx.traces += len(scs)
    for s in scs:
        if any(st["op"] in ("rmexp", "rmlast") for st in s["steps"]):
            ctx.distinct.add(s["id"])
    return vlib.finish(ctx, "model_checking",
                       "scenario = sets (integers and a non-integer), increments, look-ups, clock advances, RemoveExpired(n) and "
                       "RemoveLastUsed(n) on one map of capacity 0..50 with 2..20 keys; after every mutating call the keys known to be "
                       "live are probed; non-trivial = contains an explicit removal",
                       ["time is the library's frozen clock (origin on a whole second)",
                        "a choice among equally near EXPIRED entries is invisible; after one, Len() and the removal clauses are no longer judged in that scenario",
                        "extension check: not part of MANIFEST.json"])
