"""C02 - traffic is routed only to current pool members (balancer and rebalancer)."""
import random

import vlib
import rrcommon as R

MUTS = ["none", "path", "host", "scheme", "user", "query", "all"]


def admin_history(rng, n, keys, subject, sticky):
    steps = []
    for _ in range(n):
        r = rng.random()
        k = rng.choice(keys)
        if r < 0.30:
            st = {"op": "upsert", "k": k, "v": rng.randrange(5), "w": rng.choice([-1, -1, 0, 1, 2, 3, 5, 8])}
            if subject != "rr" and rng.random() < 0.2:
                st["meterfail"] = True     # the rebalancer's meter factory fails during this call: a new server is refused
            steps.append(st)
        elif r < 0.45:
            steps.append({"op": "remove", "k": k, "v": rng.randrange(5)})
        elif r < 0.70 and subject == "rr":
            steps.append({"op": "pick"})
        else:
            st = {"op": "serve", "mut": rng.choice(MUTS)}
            if sticky and rng.random() < 0.6:
                st["cookie"] = "jar"
            steps.append(st)
    return steps


def scenarios(ctx):
    rng = random.Random(ctx.seed * 104729 + 2)
    quick = ctx.quick()
    out = []
    beh = R.tlc_behaviours(ctx, num=200 if quick else 2000, depth=12 if quick else 16, maxadmin=8 if quick else 10,
                           seed=ctx.seed + 100)
    for i, steps in enumerate(beh):
        for subject in ("rr", "rb"):
            st2 = [dict(s) for s in steps]
            if subject == "rb":
                for s in st2:
                    if s["op"] == "pick":
                        s["op"] = "serve"
                        s["mut"] = MUTS[i % len(MUTS)]
            out.append({"id": "tlc-%s-%d" % (subject, i), "cfg": {"subject": subject, "table": i}, "steps": st2})
    n = 60 if quick else 600
    for i in range(n):
        subject = rng.choice(["rr", "rb"])
        sticky = rng.choice(["", "", "raw", "hash", "aes"])
        keys = R.KEYS[:rng.randint(2, 5)]
        steps = admin_history(rng, 40 if quick else 200, keys, subject, sticky)
        out.append({"id": "hist-%d" % i, "cfg": {"subject": subject, "sticky": sticky, "table": i}, "steps": steps})
    # directed families the property names explicitly: all-zero pools, repeated adds, re-add after remove
    for i in range(20 if quick else 100):
        subject = rng.choice(["rr", "rb"])
        nz = rng.randint(1, 4)
        steps = []
        for k in R.KEYS[:nz]:
            steps.append({"op": "upsert", "k": k, "v": rng.randrange(5), "w": rng.choice([-1, 1, 3])})
        for k in rng.sample(R.KEYS[:nz], nz):
            steps.append({"op": "upsert", "k": k, "v": rng.randrange(5), "w": 0})
        for _ in range(rng.randint(2, 6)):
            steps.append({"op": "serve", "mut": "none"} if subject == "rb" or rng.random() < 0.5 else {"op": "pick"})
        k = rng.choice(R.KEYS[:nz])
        steps.append({"op": "upsert", "k": k, "v": 0, "w": 2})
        steps += [{"op": "serve", "mut": rng.choice(MUTS)} for _ in range(3)]
        steps.append({"op": "remove", "k": k, "v": 1})
        steps += [{"op": "serve", "mut": "none"} for _ in range(2)]
        out.append({"id": "zero-%d" % i, "cfg": {"subject": subject, "table": i}, "steps": steps})
    out += R.add_family(rng, quick, serve=True)
    out += R.refused_family(rng, quick, subjects=("rr", "rb"))
    # the rebalancer at work: meters that are always ready and rate their servers differently at every request, one-second
    # back-off, the clock moving between requests - weights are adjusted and converge back all the time while servers are
    # drained (weight 0), re-weighted, removed and re-added through the rebalancer
    for i in range(40 if quick else 400):
        keys = R.KEYS[:rng.randint(2, 4)]
        steps = [{"op": "upsert", "k": k, "v": 0, "w": rng.choice([1, 2, 3])} for k in keys]
        for _ in range(60 if quick else 150):
            x = rng.random()
            if x < 0.6:
                steps.append({"op": "serve", "mut": "none"})
                if rng.random() < 0.7:
                    steps.append({"op": "adv", "d": rng.choice([1, 2, 2, 11])})
            elif x < 0.8:
                steps.append({"op": "upsert", "k": rng.choice(keys), "v": 0, "w": rng.choice([0, 0, 1, 2, 4])})
            elif x < 0.84:
                steps.append({"op": "upsert", "k": rng.choice(R.KEYS[:6]), "v": 0, "w": rng.choice([1, 2]), "meterfail": True})
            elif x < 0.9:
                steps.append({"op": "remove", "k": rng.choice(keys), "v": 0})
            else:
                steps.append({"op": "upsert", "k": rng.choice(R.KEYS[:5]), "v": 0, "w": rng.choice([1, 3])})
        out.append({"id": "adj-%d" % i, "cfg": {"subject": "rba", "table": i}, "steps": steps})
    return out


def run(ctx, replay):
    quick = ctx.quick()
    if replay:
        return R.replay(ctx, replay, ["C02."])
    vlib.mc(ctx, "MC_RR", vlib.make_cfg(constants=R.mc_constants(maxw=2 if quick else 3, maxadmin=5 if quick else 6, extra=1),
                                        invariants=R.C02_INV), "rr-members")
    vlib.mc(ctx, "MC_RR", vlib.make_cfg(constants=R.mc_constants(maxw=2, maxadmin=4, extra=2, zeroguard=False),
                                        invariants=["RoutedIsMember"]), "rr-asis-allzero", expect="RoutedIsMember")
    scs = scenarios(ctx)
    R.execute(ctx, scs, "c02", ["C02."])
    R.concurrent(ctx, ["C02."], admin=True, tag="conc-admin")
    # administration racing with weight adjustments of the rebalancer: a removed server stays removed until it is added again
    tp = vlib.os.path.join(ctx.work, "trace-rebaladmin.ndjson")
    cfg = {"goroutines": 8, "adminops": 1500 if quick else 8000}
    p = vlib.run_harness(ctx, ["stress", "rebaladmin", "-trace", tp, "-seed", str(ctx.seed), "-cfg", vlib.json.dumps(cfg)], allow_fail=True)
    if p.returncode == 3:
        ctx.hangs.append({"id": "stress", "cfg": {"subject": "rb", "stress": cfg}, "steps": [], "component": "rebaladmin-stress"})
    elif p.returncode != 0:
        raise vlib.InfraError("rebaladmin stress failed: " + p.stderr[-2000:])
    else:
        res = vlib.validate_trace(ctx, "Trace_Conc", tp, "rebaladmin")
        for b in res["bad"]:
            vlib.add_violation(ctx, "C02.RemovedStaysRemovedWhileWeightsAdjust", "C02.RemovedStaysRemovedWhileWeightsAdjust",
                               {"id": "rebaladmin", "cfg": {"subject": "rb", "stress": cfg}, "steps": [],
                                "recorded": vlib.scenario_traces(tp).get("rebaladmin", [])}, "rebaladmin-stress",
                               detail="a server removed through the rebalancer was a pool member again without being added")
        ctx.traces += 1
        ctx.scenarios += 1
    return vlib.finish(ctx, "model_checking",
                       "scenario = history of add/update/remove calls interleaved with selections and requests whose "
                       "handler rewrites the URL; distinct = distinct op/key/weight/mutation sequences; non-trivial = "
                       "contains a remove, a zero weight or a request", R.ASSUMPTIONS)
