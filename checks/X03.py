"""X03 (extension, not one of the listed properties) - the trace middleware: Tracer.tla defines the record as a function of
the exchange and the configured header names; every exchange driven through the real middleware is compared with it."""
import random

import vlib

PFX = ["X03."]
NAMES = ["X-A", "X-B", "Content-Length", "Content-Type", "x-lower", "Etag", "X-Multi"]


def hdrs(rng, side):
    h = {}
    for n in rng.sample(NAMES, rng.randint(0, 4)):
        if n == "Content-Length":
            h[n] = [rng.choice(["0", "5", "12", "1048576", "abc", "", "-1", " 7"])]
        elif n == "X-Multi":
            h[n] = ["m1", "m2", "m3"][:rng.randint(1, 3)]
        else:
            h[n] = ["%s-%s" % (side, n)]
    return h


def scenarios(ctx):
    rng = random.Random(ctx.seed * 3571 + 3)
    out = []
    for i in range(40 if ctx.quick() else 400):
        cfg = {"req": [rng.choice(NAMES) for _ in range(rng.randint(0, 4))], "resp": [rng.choice(NAMES) for _ in range(rng.randint(0, 4))]}
        steps = []
        for _ in range(25):
            steps.append({"method": rng.choice(["GET", "POST", "PUT", "DELETE", "PATCH"]),
                          "url": rng.choice(["http://h.example/a?b=1", "/rel/path", "http://h.example/%2Fx%20y", "https://h.example:8443/z#frag"]),
                          "reqHdr": hdrs(rng, "q"), "reqbody": rng.choice(["", "hello"]), "tls": rng.random() < 0.3,
                          "sni": rng.choice(["", "front.example.com"]), "status": rng.choice([0, 200, 201, 204, 404, 500, 502, 999]),
                          "respHdr": hdrs(rng, "p"), "body": rng.choice(["", "ok", "x" * 100]), "lat": rng.choice([0, 0, 1, 17, 2500]),
                          "panic": rng.random() < 0.05})
        out.append({"id": "trc-%d" % i, "cfg": cfg, "steps": steps})
    return out


def classify(clause, sc, report, evs):
    return clause


def run(ctx, replay):
    scs = [vlib.json.load(open(replay))["scenario"]] if replay else scenarios(ctx)
    tp = vlib.run_scenarios(ctx, "tracer", scs, "x03")
    res = vlib.validate_trace(ctx, "Trace_Tracer", tp, "x03")
    trs = vlib.scenario_traces(tp)
    vlib.collect(ctx, res, {s["id"]: s for s in scs}, "tracer", classify, PFX + ["TRACE."], trs)
    ctx.traces += len(scs)
    for s in scs:
        if s["cfg"]["req"] or s["cfg"]["resp"]:
            ctx.distinct.add(s["id"])
    return vlib.finish(ctx, "model_checking",
                       "exchange = request (method, URL form, header map incl. unparsable / absent Content-Length, TLS or not) x handler "
                       "script (status or none, header map, body, time taken on the frozen clock, panic) x configuration (header names "
                       "to capture, with duplicates and non-canonical spellings); non-trivial = some header is configured for capture",
                       ["time is the library's frozen clock; the handler's duration is a whole number of milliseconds",
                        "extension check: not part of MANIFEST.json"])
