"""C08 - the forwarder rewrites the outgoing request as a correct reverse proxy."""
import itertools
import random

import vlib
from vlib import Raw
import fwdcommon as F

PFX = ["C08."]


def mc_consts(connfirst):
    return {"E2E": Raw('{"X-App", "Accept"}'), "ConnFirst": connfirst, "Deferred": True}


def scenarios(ctx):
    rng = random.Random(ctx.seed * 9109 + 8)
    quick = ctx.quick()
    out = []
    # the abstract request space of the model (header algebra), every point concretised with a generated target
    steps = []
    e2e_u = ["X-App", "Accept"]
    conn_u = e2e_u + ["X-Real-Ip", "X-Forwarded-Proto", "X-Forwarded-Port", "X-Forwarded-For"]
    up_u = ["X-Real-Ip", "X-Forwarded-Proto", "X-Forwarded-Server", "X-Forwarded-For"]
    def subsets(u, maxn):
        return [list(c) for n in range(0, maxn + 1) for c in itertools.combinations(u, n)]
    space = [(e, c, u, p) for e in subsets(e2e_u, 2) for c in subsets(conn_u, 2) for u in subsets(up_u, 2) for p in (False, True)]
    if quick:
        space = rng.sample(space, 160)
    for e, c, u, p in space:
        steps.append({"target": F.random_target(rng), "method": "GET", "e2e": e, "hop": rng.sample(F.HOP, rng.randint(0, 2)),
                      "conn": c, "upstream": u, "tls": False, "hostport": rng.random() < 0.5, "passhost": p,
                      "peer": rng.choice(["v4", "v6", "v6zone"]), "mode": "ok", "resp": F.random_response(rng)})
    for i in range(0, len(steps), 40):
        out.append({"id": "alg-%d" % (i // 40), "cfg": {}, "steps": steps[i:i + 40]})
    n = 6 if quick else 60
    for i in range(n):
        out.append({"id": "rnd-%d" % i, "cfg": {}, "steps": [F.random_request(rng) for _ in range(40)]})
    return out


def run(ctx, replay):
    if replay:
        return F.replay_one(ctx, replay, PFX)
    vlib.mc(ctx, "MC_Forwarder", vlib.make_cfg(constants=mc_consts(True), invariants=["Headers", "Forwarding", "Host"]), "fwd-header-algebra")
    vlib.mc(ctx, "MC_Forwarder", vlib.make_cfg(constants=mc_consts(False), invariants=["Headers", "Forwarding", "Host"]),
            "fwd-asis-director-before-strip", expect="Forwarding")
    scs = scenarios(ctx)
    F.execute(ctx, scs, "c08", PFX)
    return vlib.finish(ctx, "model_checking",
                       "exchange = abstract request of the header algebra (end-to-end / hop-by-hop / Connection-named / upstream-"
                       "supplied header sets, pass-host) concretised with a generated request target (escapes, ';', '+', '//', dot "
                       "segments), peer form, TLS, Host with/without port; the backend's verbatim request head is compared",
                       F.ASSUMPTIONS)
