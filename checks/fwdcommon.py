"""Shared pieces of the forwarder checks (C08, C16)."""
import random

import vlib
from vlib import Raw

ASSUMPTIONS = [
    "TLC 1.8 and the CommunityModules JSON reader are trusted",
    "requests are sent as raw bytes to a real httptest proxy (plain or TLS) and received by a raw TCP backend that stores the "
    "request head verbatim; the peer address form is injected by overwriting RemoteAddr in a wrapper in front of the forwarder",
    "failure modes are produced on the loopback interface (closed port, close, SetLinger(0) reset, stall past the "
    "ResponseHeaderTimeout of 300 ms, client closing its connection, reset after a partial body)",
    "forwarding-header values are classified by the harness as own / upstream / other / absent",
]
E2E = ["X-App", "Accept", "Content-Type", "Authorization", "X-Custom-Trace", "Cache-Control"]
HOP = ["Keep-Alive", "Proxy-Authorization", "Te", "Trailer", "Proxy-Connection"]
FWD = ["X-Forwarded-Proto", "X-Forwarded-Host", "X-Forwarded-Port", "X-Forwarded-Server", "X-Real-Ip"]
UNRESERVED = "abcXYZ019-._~"


def random_target(rng):
    """valid origin-form targets: escaped slashes and spaces, multi-byte escapes, ';', '+', '//', dot segments"""
    segs = []
    for _ in range(rng.randint(1, 5)):
        kind = rng.choice(["plain", "esc_slash", "esc_space", "multibyte", "semi", "plus", "empty", "dot", "dotdot", "mixed", "upper",
                           "paren", "quote", "star", "bracket", "bang", "subdelims", "colonat"])
        w = "".join(rng.choice(UNRESERVED) for _ in range(rng.randint(1, 6)))
        segs.append({"plain": w, "esc_slash": w + "%2F" + w, "esc_space": w + "%20" + w, "multibyte": "%E2%82%AC" + w + "%C3%A9",
                     "semi": w + ";v=1;" + w, "plus": w + "+" + w, "empty": "", "dot": ".", "dotdot": "..", "mixed": "%2f" + w + "%41",
                     "upper": w.upper() + "%3A%40", "paren": w + "(1)", "quote": "it's" + w, "star": "*", "bracket": "[" + w + "]",
                     "bang": w + "!", "subdelims": "$&'()*+,;=" + w, "colonat": w + ":@" + w}[kind])
    path = "/" + "/".join(segs)
    q = ""
    if rng.random() < 0.6:
        pairs = []
        for _ in range(rng.randint(1, 3)):
            pairs.append(rng.choice(["a=b", "x=%20y", "q=a+b", "e=%C3%A9", "k=%2F%3F", "flag", "semi=a;b", "eq==", "sp=%2B"]))
        q = "?" + "&".join(pairs)
    return path + q


def random_request(rng, allow_fwd_in_conn=True):
    e2e = rng.sample(E2E, rng.randint(0, 4))
    hop = rng.sample(HOP, rng.randint(0, 2))
    # tokens of the Connection header: carried end-to-end headers, forwarding headers, and the standard options a client may
    # list without carrying a header of that name (a plain request naming Upgrade is still a plain request)
    connpool = e2e + (FWD + ["X-Forwarded-For"] if allow_fwd_in_conn else []) + ["Upgrade", "keep-alive", "upgrade", "TE"]
    conn = rng.sample(connpool, rng.randint(0, min(3, len(connpool)))) if rng.random() < 0.5 else []
    upstream = rng.sample(FWD + ["X-Forwarded-For"], rng.randint(0, 3)) if rng.random() < 0.5 else []
    upempty = [h for h in rng.sample(FWD, rng.randint(0, 2)) if h not in upstream and h not in conn] if rng.random() < 0.4 else []
    return {"target": random_target(rng), "method": rng.choice(["GET", "GET", "DELETE", "OPTIONS"]), "upempty": upempty,
            "e2e": e2e, "hop": hop, "conn": conn, "connlines": rng.random() < 0.5, "conncase": rng.choice(["asis", "asis", "lower", "upper"]),
            "upstream": upstream, "tls": rng.random() < 0.3,
            "hostport": rng.random() < 0.4, "passhost": rng.random() < 0.5, "peer": rng.choice(["v4", "v6", "v6zone"]),
            "mode": "ok", "resp": random_response(rng)}


def random_response(rng):
    return {"status": rng.choice([200, 200, 201, 203, 226, 299, 404, 418, 451, 499, 500, 503, 511, 599, 600, 799, 999]), "e2e": rng.sample(["X-Resp", "Content-Type", "Etag", "Set-Cookie"], rng.randint(0, 3)),
            "hop": rng.sample(["Keep-Alive", "Proxy-Authenticate", "Trailer"], rng.randint(0, 2)),
            "conn": rng.sample(["X-Hop-Custom", "X-Hop-Other", "x-hop-lower"], rng.randint(0, 3)), "connlines": rng.random() < 0.5,
            "size": rng.choice([0, 1, 100, 4096, 70000, 300000]), "chunked": rng.random() < 0.5, "chunk": rng.choice([1, 7, 1000, 65536]),
            "pause_ms": rng.choice([0, 0, 0, 5, 20])}


def classify(clause, sc, report, evs):
    return clause


def execute(ctx, scs, tag, prefixes, classify_fn=None):
    tp = vlib.run_scenarios(ctx, "fwd", scs, tag, hang_s=60)
    res = vlib.validate_trace(ctx, "Trace_Fwd", tp, tag)
    trs = vlib.scenario_traces(tp)
    by_id = {s["id"]: s for s in scs}
    starts = {}
    with open(tp) as f:
        for i, l in enumerate(f, 1):
            if '"e":"Reset"' in l:
                starts[vlib.json.loads(l)["scn"]] = i
    for b in res.get("bad", []):
        if not any(b["clause"].startswith(p) for p in prefixes):
            continue
        sc = by_id[b["scn"]]
        idx = b["line"] - starts[b["scn"]] - 1
        one = {"id": "%s-x%d" % (sc["id"], idx), "cfg": sc["cfg"], "steps": [sc["steps"][idx]]}
        ev = trs[b["scn"]][idx + 1]
        sig = (classify_fn or default_sig)(b["clause"], one["steps"][0], ev)
        vlib.add_violation(ctx, b["clause"], sig, one, "fwd", detail="scenario=%s exchange=%d" % (b["scn"], idx))
    for d in res.get("drift", []):
        ctx.drift.append(d)
    ctx.traces += len(scs)
    for s in scs:
        for st in s["steps"]:
            ctx.distinct.add(vlib.json.dumps(st, sort_keys=True))
    if not ctx.samples:
        ctx.samples.append({"scenario": {"id": scs[0]["id"], "steps": scs[0]["steps"][:2]}, "recorded_events": trs[scs[0]["id"]][:3]})
    ctx.extra["exchanges"] = ctx.extra.get("exchanges", 0) + sum(len(s["steps"]) for s in scs)
    return res


def default_sig(clause, step, ev):
    if clause == "C08.ForwardingHeadersDescribeConnection":
        named = sorted(set(step.get("conn", [])) & set(FWD))
        return clause + ("/named-in-Connection" if named else "")
    if clause == "C16.ListenerEventsPaired":
        return clause + "/" + step.get("mode", "ok")
    return clause


def replay_one(ctx, path, prefixes):
    rec = vlib.json.load(open(path))
    sc = rec["scenario"]
    tp = vlib.run_scenarios(ctx, "fwd", [sc], "replay", hang_s=60)
    res = vlib.validate_trace(ctx, "Trace_Fwd", tp, "replay")
    bad = [b for b in res["bad"] if any(b["clause"].startswith(p) for p in prefixes)]
    for ev in vlib.scenario_traces(tp).get(sc["id"], [])[:10]:
        print(vlib.json.dumps(ev))
    for b in bad[:10]:
        print("REPORT line=%s clause=%s" % (b["line"], b["clause"]))
    if bad or ctx.hangs:
        print("VIOLATION property=%s replay=%s" % (ctx.pid, path))
        return 1
    print("replay: no contract report")
    return 0
