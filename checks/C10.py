"""C10 - the rebalancer shifts share only away from outliers and never starves a server."""
import random

import vlib
from vlib import Raw, Def

ASSUMPTIONS = [
    "TLC 1.8 and the CommunityModules JSON reader are trusted",
    "ratings are supplied through the public RebalancerMeter option in quarters (exact in float64); 'outlier' is the "
    "median + MAD split of memmetrics/anomaly.go, which the contract evaluates in integer arithmetic",
    "effective weights are read back through ServerWeight of the wrapped balancer after every call",
    "clause 'loses share within two back-offs' is demanded only for a single outlier among otherwise good servers",
]
KEYS = ["a", "b", "c", "d", "e"]


def consts(cap, backoffs, ratings, advances, maxreq, horizon, nocap=False, depth=None, maxadmin=1):
    st = lambda xs: Raw("{" + ", ".join(map(str, xs)) + "}")
    pools = ['<<<<"a",1>>,<<"b",1>>>>', '<<<<"a",1>>,<<"b",2>>,<<"c",3>>>>', '<<<<"a",2>>,<<"b",2>>>>', '<<<<"a",1>>,<<"b",1>>,<<"c",1>>>>']
    c = {"Keys": Raw('{"a", "c"}'), "Weights": st([1, 3]), "InitPools": Def("{" + ", ".join(pools) + "}"), "Cap": cap,
         "Backoffs": st(backoffs), "Ratings": st(ratings), "Advances": st(advances), "MaxReq": maxreq, "MaxAdmin": maxadmin,
         "Horizon": horizon, "NoCapCheck": nocap}
    if depth is not None:
        c["Depth"] = depth
    return c


def seeded(ctx, n, length):
    rng = random.Random(ctx.seed * 6007 + 10)
    out = []
    for i in range(n):
        ns = rng.randint(2, 5)
        keys = KEYS[:ns]
        style = rng.choice(["small", "big", "equal", "huge"])
        ws = {"small": [rng.randint(1, 6) for _ in keys], "big": [rng.choice([1, 10, 100, 1000]) for _ in keys],
              "equal": [rng.choice([1, 2, 50])] * ns, "huge": [rng.choice([1, 3, 5000, 4096]) for _ in keys]}[style]
        backoff = rng.choice([1, 2, 4, 10])
        steps = [{"op": "init", "pool": [{"k": k, "w": w} for k, w in zip(keys, ws)]}]
        members = list(keys)
        mode, bad = "healthy", set()
        for _ in range(length):
            if rng.random() < 0.1:
                mode = rng.choice(["healthy", "onefails", "flapping", "allfail", "recovering", "notready"])
                bad = set(rng.sample(members, 1 if mode != "allfail" else len(members)))
            if rng.random() < 0.04:
                if rng.random() < 0.5 and len(members) > 1:
                    k = rng.choice(members)
                    members.remove(k)
                    steps.append({"op": "remove", "k": k})
                else:
                    k = rng.choice(KEYS)
                    if k not in members:
                        members.append(k)
                    steps.append({"op": "upsert", "k": k, "w": rng.choice([1, 2, 7, 100])})
                continue
            meters = []
            for k in members:
                if mode == "healthy":
                    r = 0
                elif mode in ("onefails", "allfail"):
                    r = rng.choice([3, 4]) if k in bad else 0
                elif mode == "flapping":
                    r = rng.choice([0, 4]) if k in bad else rng.choice([0, 0, 1])
                elif mode == "recovering":
                    r = rng.choice([0, 1]) if k in bad else 0
                else:
                    r = rng.choice([0, 4])
                meters.append({"k": k, "r": r, "ready": not (mode == "notready" and k in bad)})
            rq = {"op": "req", "meters": meters}
            if rng.random() < 0.12:
                rq["lat"] = rng.choice([1, backoff, backoff + 1, 3 * backoff])   # slow backend: time passes during the exchange
            steps.append(rq)
            steps.append({"op": "adv", "d": rng.choice([0, 1, 1, max(1, backoff // 2), backoff, backoff + 1])})
        out.append({"id": "rnd-%d" % i, "cfg": {"backoff": backoff, "tick_ms": 1000, "table": i}, "steps": [s for s in steps if s.get("d", 1) != 0]})
    return out


def classify(clause, sc, report, evs):
    return clause


def run(ctx, replay):
    quick = ctx.quick()
    if replay:
        rec = vlib.json.load(open(replay))
        sc = rec["scenario"]
        tp = vlib.run_scenarios(ctx, "rebal", [sc], "replay")
        res = vlib.validate_trace(ctx, "Trace_Rebal", tp, "replay")
        bad = [b for b in res["bad"] if b["clause"].startswith("C10.")]
        evs = vlib.scenario_traces(tp).get(sc["id"], [])
        for ev in evs[:80]:
            print(vlib.json.dumps(ev))
        for b in bad[:10]:
            print("REPORT line=%s clause=%s" % (b["line"], b["clause"]))
        if bad:
            print("VIOLATION property=C10 replay=%s" % replay)
            return 1
        print("replay: no contract report")
        return 0
    vlib.mc(ctx, "MC_Rebalancer", vlib.make_cfg(constants=consts(16, [2], [0, 4], [1, 3], 4 if quick else 5, 9 if quick else 10),
                                                invariants=["Contract"]), "rebal-contract", timeout=1500)
    vlib.mc(ctx, "MC_Rebalancer", vlib.make_cfg(constants=consts(16, [1], [0, 4], [2], 5, 12, nocap=True, maxadmin=0),
                                                invariants=["Contract"]), "rebal-mutant-nocap", expect="Contract")
    behs = vlib.gen_tlc(ctx, "Gen_Rebal", vlib.make_cfg(spec="GSpec", constants=consts(4096, [1, 2], [0, 1, 4], [1, 2, 3], 40, 10 ** 6, depth=30, maxadmin=3),
                                                        invariants=["Emit"]), "gen-rebal", num=100 if quick else 1000, depth=31, seed=ctx.seed)
    scs = []
    for i, b in enumerate(behs):
        scs.append({"id": "tlc-%d" % i, "cfg": {"backoff": b[0]["backoff"], "tick_ms": 1000, "table": i}, "steps": b})
    scs += seeded(ctx, 50 if quick else 500, 150 if quick else 500)
    tp = vlib.run_scenarios(ctx, "rebal", scs, "c10")
    res = vlib.validate_trace(ctx, "Trace_Rebal", tp, "c10")
    trs = vlib.scenario_traces(tp)
    vlib.collect(ctx, res, {s["id"]: s for s in scs}, "rebal", classify, ["C10."], trs)
    ctx.traces += len(scs)
    for s in scs:
        ws = [tuple(sorted((w["k"], w["w"]) for w in e["weights"])) for e in trs.get(s["id"], []) if e.get("e") == "Req"]
        if len(set(ws)) > 1:
            ctx.distinct.add(vlib.json.dumps(s["steps"], sort_keys=True))
    ctx.samples.append({"scenario": {"id": scs[0]["id"], "cfg": scs[0]["cfg"], "steps": scs[0]["steps"][:8]},
                        "recorded_events": trs[scs[0]["id"]][:8]})
    return vlib.finish(ctx, "model_checking",
                       "scenario = configured weights + sequence of per-server (rating, ready) vectors with clock advances and "
                       "membership changes; all six clauses evaluated after every request; non-trivial = the effective weights changed",
                       ASSUMPTIONS)
