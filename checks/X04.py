"""X04 (extension, not one of the listed properties) - memmetrics.RTMetrics: records, exports, appends and resets on named
collectors. RTMetrics.tla models the counters (RollingCounter.tla), Clone / Append and the rolling latency histogram."""
import random

import vlib
from vlib import Raw

PFX = ["X04."]
INV = ["AlwaysConsistent", "AppendAddsCounts", "ExportIsSnapshot", "ResetEmpties", "WindowForgets"]


def mcc(mo, hz):
    return {"N": 2, "B": 2, "Period": 2, "Codes": Raw("{200, 502}"), "Lats": Raw("{1, 10}"), "Advances": Raw("{1, 2}"), "MaxOps": mo,
            "Horizon": hz}


def scenarios(ctx):
    rng = random.Random(ctx.seed * 9973 + 4)
    quick = ctx.quick()
    out = []
    for i in range(50 if quick else 500):
        names = ["m1", "m2", "m3"][:rng.randint(1, 3)]
        tick = rng.choice([1000, 500])
        tps = 1000 // tick
        steps = []
        for _ in range(120 if quick else 300):
            x = rng.random()
            if x < 0.55:
                steps.append({"op": "rec", "m": rng.choice(names), "code": rng.choice([200, 200, 201, 404, 500, 502, 503, 504]),
                              "lat": rng.choice([1, 10, 100, 1000, 10000])})
            elif x < 0.8:
                steps.append({"op": "adv", "d": rng.choice([1, 1, 2, tps, 3 * tps, 9 * tps, 10 * tps, 11 * tps, 25 * tps, 70 * tps])})
            elif len(names) > 1 and x < 0.88:
                a, b = rng.sample(names, 2)
                steps.append({"op": "app", "dst": a, "src": b})
            elif len(names) > 1 and x < 0.94:
                a, b = rng.sample(names, 2)
                steps.append({"op": "exp", "dst": a, "src": b})
            elif x < 0.97:
                steps.append({"op": "rst", "m": rng.choice(names)})
            else:
                steps.append({"op": "adv", "d": 1})
        out.append({"id": "rtm-%d" % i, "cfg": {"tick_ms": tick, "names": names}, "steps": steps})
    return out


def classify(clause, sc, report, evs):
    return clause


def run(ctx, replay):
    if replay:
        scs = [vlib.json.load(open(replay))["scenario"]]
    else:
        quick = ctx.quick()
        vlib.mc(ctx, "MC_RTMetrics", vlib.make_cfg(constants=mcc(4, 4) if quick else mcc(5, 5), invariants=INV), "rtmetrics", timeout=1500)
        vlib.mc(ctx, "MC_RTMetrics", vlib.make_cfg(constants=mcc(4, 4), invariants=["AsFoundAgeSkew"]), "rtmetrics-asfound-age-skew",
                expect="AsFoundAgeSkew")
        scs = scenarios(ctx)
    tp = vlib.run_scenarios(ctx, "rtm", scs, "x04")
    res = vlib.validate_trace(ctx, "Trace_RTM", tp, "x04")
    trs = vlib.scenario_traces(tp)
    for dft in res.get("drift", []):
        res.setdefault("bad", []).append({"scn": dft["scn"], "line": dft["line"], "clause": "X04.ModelAgrees"})
    res["drift"] = []
    vlib.collect(ctx, res, {s["id"]: s for s in scs}, "rtm", classify, PFX + ["TRACE."], trs)
    ctx.traces += len(scs)
    for s in scs:
        if any(st["op"] == "app" for st in s["steps"]):
            ctx.distinct.add(s["id"])
    return vlib.finish(ctx, "model_checking",
                       "scenario = records (status, latency of 1 ms .. 10 s), clock advances up to several windows, appends, exports "
                       "and resets on one to three collectors; after every step everything is read back from every collector; "
                       "non-trivial = contains an append",
                       ["time is the library's frozen clock (origin on a whole second)",
                        "latency quantiles are compared within the histogram's two significant digits (3 %)",
                        "extension check: not part of MANIFEST.json"])
