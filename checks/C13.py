"""C13 - rejected requests cost nothing and the advertised wait is sufficient."""
import random

import vlib
import ratecommon as RC
import C03

SETS = [[(1, 1, 2)], [(2, 1, 3)], [(1, 1, 1), (3, 1, 2)]]
INV = ["RejectionFree", "WaitSufficient", "IdleRegainsBurst", "OversizeRefused"]


def flood_pattern(rng, rates, tps, length, sources):
    """admitted requests separated by floods of rejected ones, retries after the advertised delay, idle probes, oversize"""
    steps = []
    maxb = max(r["b"] for r in rates)
    minb = min(r["b"] for r in rates)
    while len(steps) < length:
        src = rng.choice(sources)
        mode = rng.choice(["flood", "flood", "retry", "idle", "oversize", "mixed", "trickle", "trickle"])
        if mode == "flood":
            for _ in range(rng.randint(0, maxb)):
                steps.append({"op": "req", "src": src, "n": rng.choice([1, 1, 2])})
            for _ in range(rng.randint(1, 25)):
                steps.append({"op": "req", "src": src, "n": rng.choice([1, 1, minb]), "flood": True})
            steps.append({"op": "adv", "d": rng.choice([1, 1, 2, min(r["p"] // r["a"] for r in rates)])})
        elif mode == "trickle":
            # drain, then rejected single-token requests a fraction of a token interval apart: a bucket that has no whole token
            # to hand out leaves its refill checkpoint alone, so the requests that follow are decided exactly as if the rejected
            # ones had never been made. (Only for one rate and amount 1: a refused request that finds whole tokens accrued in
            # some bucket - a larger amount, or another rate of the set - credits them and restarts that bucket's interval,
            # which drops the elapsed fraction; that is rounding of refill time in the pinned code, not a debit of quota, and
            # the history without the rejected requests is then not bit-identical. See DESIGN.md section 10.)
            if len(rates) != 1:
                continue
            for _ in range(maxb + 1):
                steps.append({"op": "req", "src": src, "n": rng.choice([1, minb])})
            for _ in range(rng.randint(2, 12)):
                steps.append({"op": "adv", "d": rng.choice([1, 1, 2, 3])})
                for _ in range(rng.randint(1, 3)):
                    steps.append({"op": "req", "src": src, "n": 1, "flood": True})
        elif mode == "retry":
            for _ in range(maxb + 1):
                steps.append({"op": "req", "src": src, "n": rng.choice([1, minb])})
            for _ in range(rng.randint(0, 5)):
                steps.append({"op": "req", "src": src, "n": 1, "flood": True})
            steps.append({"op": "retry", "src": src})
        elif mode == "idle":
            steps.append({"op": "idle", "src": src})
        elif mode == "oversize":
            steps.append({"op": "req", "src": src, "n": minb + rng.randint(1, 3)})
        else:
            steps.append({"op": "req", "src": src, "n": rng.randint(1, minb)})
            steps.append({"op": "adv", "d": rng.randint(1, 3 * tps)})
    return steps


def scenarios(ctx):
    rng = random.Random(ctx.seed * 7129 + 13)
    quick = ctx.quick()
    out = RC.tlc_scenarios(ctx, "tlc", ["s1"], SETS, 1, 4, [1, 2, 3, 4], [1, 2, 3, 12], 60 if quick else 600, 30, ctx.seed,
                           extra_cfg={"nofl": True})
    for s in out:   # every TLC behaviour also at the bucket-set level (tokens observable)
        pass
    out += [{"id": s["id"] + "-set", "cfg": dict(s["cfg"], level="set"), "steps": [dict(st, src="s1") for st in s["steps"]]}
            for s in list(out)]
    for i in range(40 if quick else 400):
        tick = rng.choice([100, 250, 500, 1000])
        tps = 1000 // tick
        rates = RC.random_rates(rng, tps)
        level = rng.choice(["http", "set"])
        sources = ["s1"] if level == "set" else ["s%d" % j for j in range(1, rng.randint(1, 3) + 1)]
        steps = flood_pattern(rng, rates, tps, 150 if quick else 500, sources)
        if level == "http":
            for st in steps:   # floods are marked only where the history without them is well defined
                pass
        out.append({"id": "rnd-%d" % i, "cfg": {"tick_ms": tick, "rates": rates, "cap": 65536, "level": level,
                                                "extract": "custom", "qualified": True, "nofl": True}, "steps": steps})
    out += RC.byte_quota_scenarios("c13", {"nofl": True})
    out += RC.fast_rate_scenarios("c13", rng, {"nofl": True})
    out += RC.nondividing_scenarios("c13", {})
    return out


def run(ctx, replay):
    quick = ctx.quick()
    if replay:
        return C03.replay_one(ctx, replay, ["C13."])
    vlib.mc(ctx, "MC_Rate", vlib.make_cfg(constants=RC.consts(["s1"], SETS, 1, 1, [1, 2, 3, 4], [1, 2, 3, 12], 8 if quick else 9,
                                                               30 if quick else 36), invariants=INV), "rate-c13")
    vlib.mc(ctx, "MC_Rate", vlib.make_cfg(constants=RC.consts(["s1"], [[(1, 1, 1), (3, 1, 2)]], 1, 1, [1, 2], [1, 2], 6, 12, norollback=True),
                                          invariants=INV), "rate-mutant-norollback", expect="RejectionFree")
    scs = scenarios(ctx)
    C03.execute(ctx, scs, "c13", ["C13."])
    return vlib.finish(ctx, "model_checking",
                       "scenario = admitted requests separated by floods of rejected ones, retries after the advertised delay, idle "
                       "probes and oversize requests, at the HTTP surface (decisions compared with the same history without the "
                       "rejected flood) and at TokenBucketSet level (tokens read before/after); non-trivial = contains a rejection",
                       RC.ASSUMPTIONS)
