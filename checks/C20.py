"""C20 - middlewares are transparent when not intervening and decisive when they do."""
import itertools
import random

import vlib

NAMES = ["stream", "trace", "connlimit", "ratelimit", "cbreaker", "roundrobin", "rebalancer", "buffer"]
CAN = {"connlimit", "ratelimit", "cbreaker", "roundrobin", "rebalancer", "buffer"}
ASSUMPTIONS = [
    "TLC 1.8 and the CommunityModules JSON reader are trusted",
    "every stack is built from the real constructors and served by a real net/http server; the oracle for the transparent case "
    "is the bare handler run on an identical server",
    "a layer is made to intervene by configuration (limit 0, burst used up by two warm-up requests, breaker tripped by a failing "
    "warm-up response, empty pool, request larger than the buffer's maximum)",
    "flush is observed inside the handler (http.Flusher available and called between chunks), hijack by taking over the connection",
]


def stacks(depth):
    out = []
    for d in range(1, depth + 1):
        for names in itertools.product(NAMES, repeat=d):
            out.append([{"name": n, "mode": "pass"} for n in names])
            for i, n in enumerate(names):
                if n in CAN:
                    s = [{"name": x, "mode": "pass"} for x in names]
                    s[i] = {"name": n, "mode": "intervene"}
                    out.append(s)
    return out


def scripts(rng, full):
    base = []
    for status in (0, 200, 404, 500, 503):
        for flush in (False, True):
            for hijack in (False, True):
                base.append({"status": status, "flush": flush, "hijack": hijack,
                             "hdrs": rng.sample(["X-H1", "Content-Type", "X-H2", "Etag"], rng.randint(0, 3)),
                             "chunks": rng.choice([[], [5], [3, 20], [9, 1, 40], [70000]])})
    return base if full else rng.sample(base, 6)


def classify(clause, sc, report, evs):
    return clause


def run(ctx, replay):
    quick = ctx.quick()
    rng = random.Random(ctx.seed * 2711 + 20)
    if replay:
        rec = vlib.json.load(open(replay))
        scs = [rec["scenario"]]
    else:
        vlib.mc(ctx, "MC_Stack", vlib.make_cfg(constants={"MaxDepth": 3, "Broken": ""}, invariants=["Contract"]), "stack-fold")
        vlib.mc(ctx, "MC_Stack", vlib.make_cfg(constants={"MaxDepth": 2, "Broken": "trace"}, invariants=["Contract"]),
                "stack-mutant-trace-drops-flush", expect="Contract")
        all3 = stacks(3)
        small = [s for s in all3 if len(s) <= 2]
        deep = [s for s in all3 if len(s) == 3]
        chosen = small + (rng.sample(deep, 150) if quick else deep)
        if not quick:
            chosen += rng.sample(stacks(4)[len(all3):], 1500)
        steps = []
        for s in chosen:
            for sc in scripts(rng, full=len(s) <= 1 or not quick):
                steps.append({"layers": s, "script": sc})
        # the same stacks on a response writer that cannot be hijacked (in-memory recorder), with a handler that tries to
        # take the connection over and answers normally when that fails
        for s in [x for x in chosen if len(x) <= 2] + rng.sample(deep, 60 if quick else 600):
            sc = dict(rng.choice(scripts(rng, full=True)), hijack=False, flush=False, tryhijack=True)
            steps.append({"layers": s, "script": sc, "via": "recorder"})
        # handlers that send an informational response (103) before the final status
        for s in [x for x in chosen if len(x) <= 2] + rng.sample(deep, 40 if quick else 400):
            sc = dict(rng.choice(scripts(rng, full=True)), hijack=False, early=True, status=rng.choice([200, 404, 500, 201]))
            steps.append({"layers": s, "script": sc})
        # handlers that use the header map directly (nil value suppresses an automatic header, verbatim keys)
        for s in [x for x in chosen if len(x) <= 2] + rng.sample(deep, 40 if quick else 400):
            sc = dict(rng.choice(scripts(rng, full=True)), hijack=False, rawmap=True)
            steps.append({"layers": s, "script": sc, "via": rng.choice(["server", "recorder"])})
        for stp in steps:     # streaming handlers whose very first call is Flush (in-memory recorder: the flush is observed at the bottom)
            if rng.random() < 0.15 and not any(stp["script"].get(x) for x in ("hijack", "rawmap", "early", "tryhijack")):
                stp["script"] = dict(stp["script"], flushfirst=True, status=0, flush=True)
                stp["via"] = "recorder"
        # balancers with session affinity: whatever affinity cookie the client presents (none, a member's, a stranger's, one that
        # cannot be decoded) is no reason to intervene while the pool is non-empty - the documented cookie is all that is added
        COOKIES = ["", "oxysession=http://10.7.0.1:8080/base", "oxysession=http://10.9.9.9:1/", "oxysession=10.0.0.1:8080",
                   "oxysession=%zz", "oxysession=", "other=1; oxysession=::::", "oxysession=http://[::1"]
        bal = [x for x in chosen if len(x) <= 3 and any(l["name"] in ("roundrobin", "rebalancer") and l["mode"] == "pass" for l in x)]
        for s in rng.sample(bal, min(len(bal), 120 if quick else 1200)):
            s2 = [dict(l, sticky=True) if l["name"] in ("roundrobin", "rebalancer") and l["mode"] == "pass" else dict(l) for l in s]
            sc = dict(rng.choice(scripts(rng, full=True)), hijack=False)
            steps.append({"layers": s2, "script": sc, "cookie": rng.choice(COOKIES)})
            if rng.random() < 0.5:    # the response already carries cookies and a header set in front of the stack (in-memory recorder)
                steps.append({"layers": s2, "script": dict(sc, flush=False), "cookie": rng.choice(COOKIES), "via": "recorder", "preset": True})
        for stp in steps:
            if stp.get("via") == "recorder" and "preset" not in stp and rng.random() < 0.3 and not stp["script"].get("rawmap"):
                stp["preset"] = True
        for stp in steps:     # the tracer's record sink fails for some of the exchanges that pass through a tracer
            if any(l["name"] == "trace" for l in stp["layers"]) and rng.random() < 0.4:
                stp["sinkfail"] = True
        scs = [{"id": "stacks-%d" % i, "cfg": {}, "steps": steps[i:i + 200]} for i in range(0, len(steps), 200)]
    tp = vlib.run_scenarios(ctx, "stack", scs, "c20", hang_s=60)
    res = vlib.validate_trace(ctx, "Trace_Stack", tp, "c20")
    trs = vlib.scenario_traces(tp)
    starts = {}
    with open(tp) as f:
        for i, l in enumerate(f, 1):
            if '"e":"Reset"' in l:
                starts[vlib.json.loads(l)["scn"]] = i
    by_id = {s["id"]: s for s in scs}
    bad = [b for b in res["bad"] if b["clause"].startswith("C20.")]
    if replay:
        for ev in trs[scs[0]["id"]][:5]:
            print(vlib.json.dumps(ev))
        for b in bad[:10]:
            print("REPORT line=%s clause=%s" % (b["line"], b["clause"]))
        if bad:
            print("VIOLATION property=C20 replay=%s" % replay)
            return 1
        print("replay: no contract report")
        return 0
    for b in bad:
        sc = by_id[b["scn"]]
        idx = b["line"] - starts[b["scn"]] - 1
        st = sc["steps"][idx]
        one = {"id": "%s-x%d" % (sc["id"], idx), "cfg": {}, "steps": [st]}
        sig = "%s/%s" % (b["clause"], "+".join(sorted({l["name"] for l in st["layers"]} & {"buffer", "trace", "cbreaker", "rebalancer"})) or "plain")
        if st["script"]["status"] == 0:
            sig += "/implicit-status"
        vlib.add_violation(ctx, b["clause"], sig, one, "stack", detail="stack=%s" % [l["name"] + ":" + l["mode"][0] for l in st["layers"]])
    for d in res.get("drift", []):
        ctx.drift.append(d)
    ctx.traces += len(scs)
    n = 0
    for s in scs:
        for st in s["steps"]:
            n += 1
            ctx.distinct.add(vlib.json.dumps([st["layers"], st["script"]["status"], st["script"]["flush"], st["script"]["hijack"]]))
    ctx.extra["exchanges"] = n
    ctx.samples.append({"scenario": {"steps": scs[-1]["steps"][:2]}, "recorded_events": trs[scs[-1]["id"]][1:3]})
    return vlib.finish(ctx, "model_checking",
                       "program = stack of middlewares (with repetition, at most one layer configured to intervene) x handler script "
                       "(status incl. none, headers, body chunks, flush, hijack); all stacks up to depth 2 (quick) / 3 (thorough) and a "
                       "sample of deeper ones; distinct = distinct (stack, script kind)", ASSUMPTIONS,
                       coverage_extra={"programs": n, "disagreements_checked": n}, exhaustive=not quick)
