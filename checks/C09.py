"""C09 - every middleware is safe under concurrent requests and administration."""
import re

import vlib

ASSUMPTIONS = [
    "half (a), no lost update / atomic critical sections: hook-ordered histories of goroutine drivers are validated by TLC against "
    "the same sequential contracts as the single-threaded traces, and exact totals are compared at quiescence (clock frozen)",
    "half (b), no data race: the same drivers run in a -race build; the Go race detector (dynamic happens-before analysis) decides; "
    "TLA+ cannot observe memory accesses - the detector checks the atomicity assumption under which the specs were model-checked, "
    "on the executions the model-derived drivers produce",
    "schedules vary with VERIF_SEED (goroutine counts, yields); a race or lost update that no driver schedule exhibits is missed",
]
DRIVERS = [  # component, trace module, driver cfg (quick, thorough)
    ("rr", "Trace_RR", {"rounds": 3, "goroutines": 8, "picks": 150, "admin": True, "adminops": 25},
     {"rounds": 10, "goroutines": 16, "picks": 500, "admin": True, "adminops": 80}),
    ("conn", "Trace_Conn", {"rounds": 3, "goroutines": 12, "requests": 120}, {"rounds": 12, "goroutines": 16, "requests": 400}),
    ("breaker", "Trace_Breaker", {"rounds": 25, "goroutines": 8}, {"rounds": 150, "goroutines": 12}),
    ("metrics", "Trace_Conc", {"goroutines": 8, "ops": 300}, {"goroutines": 16, "ops": 2000}),
    ("rate", "Trace_Conc", {"goroutines": 12, "ops": 150}, {"goroutines": 16, "ops": 800}),
    ("ttl", "Trace_Conc", {"rounds": 3000}, {"rounds": 30000}),
    ("rebal", "Trace_Conc", {"goroutines": 8, "ops": 150}, {"goroutines": 12, "ops": 800}),
    ("rebaladmin", "Trace_Conc", {"goroutines": 8, "adminops": 1500}, {"goroutines": 12, "adminops": 6000}),
    ("stackall", "Trace_Conc", {"goroutines": 8, "ops": 100}, {"goroutines": 12, "ops": 600}),
]


def race_signatures(stderr):
    """one signature per race report whose conflicting accesses are made by library code: the innermost oxy functions of the
    two access stacks. Reports whose accesses are both made by harness code are the harness's own fault (infrastructure)."""
    sigs, own = [], 0
    for rep in stderr.split("WARNING: DATA RACE")[1:]:
        rep = rep.split("Goroutine ")[0]
        stacks = re.split(r"\n(?=(?:Read|Write|Previous read|Previous write|Atomic)[^\n]* by )", rep)
        tops = []
        for stx in stacks:
            frames = re.findall(r"\n\s+([\w./()*\-]+)\(\)\n", stx)
            if not frames:
                continue
            # innermost frame that is not runtime / sync plumbing
            inner = next((f for f in frames if not f.startswith(("runtime.", "sync.", "sync/atomic."))), frames[0])
            lib = next((f for f in frames if f.startswith("github.com/vulcand/oxy/v2/") and "verifhook" not in f), None)
            tops.append((inner, lib))
        if tops and all(t[0].startswith("main.") for t in tops):
            own += 1
            continue
        libs = sorted({(t[1] or t[0]).replace("github.com/vulcand/oxy/v2/", "") for t in tops})
        sigs.append("C09.NoDataRace/" + "|".join(libs))
    return sigs, own


def run(ctx, replay):
    quick = ctx.quick()
    if replay:
        rec = vlib.json.load(open(replay))
        comps = [d for d in DRIVERS if d[0] == rec["scenario"]["component"]]
    else:
        comps = DRIVERS
    nraces = 0
    if not replay:
        # design level: the lock discipline of the shared metric counters, all interleavings of 2-3 writers and 2 readers
        lc = lambda g, w: {"Writers": vlib.Raw("{" + ", ".join('"w%d"' % i for i in range(1, w + 1)) + "}"),
                           "Readers": vlib.Raw('{"r1", "r2"}'), "Guard": g}
        inv = ["NoLostUpdate", "NoDataRace"]
        vlib.mc(ctx, "LockDiscipline", vlib.make_cfg(constants=lc("mutex", 2 if quick else 3), invariants=inv), "locks-mutex", workers=4)
        vlib.mc(ctx, "LockDiscipline", vlib.make_cfg(constants=lc("none", 2), invariants=["NoLostUpdate"]), "locks-asis-unguarded",
                expect="NoLostUpdate", workers=4)
        vlib.mc(ctx, "LockDiscipline", vlib.make_cfg(constants=lc("rlock", 2), invariants=inv), "locks-asis-write-under-rlock",
                expect="NoDataRace", workers=4)
    runs = [(c, ctx.seed + 1000 * k) for k in range(1 if quick or replay else 6) for c in comps]   # thorough: six schedule seeds per driver
    for (comp, module, cq, ct), sseed in runs:
        cfg = cq if quick else ct
        tp = vlib.os.path.join(ctx.work, "trace-c09-%s-%d.ndjson" % (comp, sseed))
        p = vlib.run_harness(ctx, ["stress", comp, "-trace", tp, "-seed", str(sseed), "-cfg", vlib.json.dumps(cfg), "-hang", "60"],
                             race=True, allow_fail=True, timeout=1500, env_extra={"GORACE": "halt_on_error=0 history_size=3"})
        sc = {"id": "stress-" + comp, "component": comp, "cfg": cfg, "steps": []}
        if p.returncode == 3:
            h = dict(sc)
            h["component"] = comp + "-stress"
            ctx.hangs.append(h)
            continue
        sigs, own = race_signatures(p.stderr)
        if own:
            raise vlib.InfraError("the harness itself has a data race in driver %s:\n%s" % (comp, p.stderr[:3000]))
        for s in sigs:
            nraces += 1
            vlib.add_violation(ctx, "C09.NoDataRace", s, sc, comp + "-stress", detail="race detector report in driver %s" % comp)
        if p.returncode != 0 and not sigs:
            raise vlib.InfraError("stress driver %s failed (%d): %s" % (comp, p.returncode, p.stderr[-2000:]))
        if not vlib.os.path.exists(tp) or vlib.os.path.getsize(tp) == 0:
            continue
        res = vlib.validate_trace(ctx, module, tp, "c09-%s-%d" % (comp, sseed))
        trs = vlib.scenario_traces(tp)
        for b in res["bad"]:
            if b["clause"].startswith("TRACE."):
                continue
            vlib.add_violation(ctx, b["clause"], "C09.SequentialContractUnderConcurrency/%s/%s" % (comp, b["clause"]),
                               dict(sc, recorded=trs.get(b["scn"], [])[:200]), comp + "-stress",
                               detail="driver=%s scenario=%s line=%s" % (comp, b["scn"], b["line"]))
        ctx.traces += len(trs)
        ctx.scenarios += len(trs)
        ctx.distinct.add(comp)
        for k in trs:
            ctx.distinct.add("%s/%s/%d" % (comp, k, sseed))
        if comp == "metrics":
            ctx.samples.append({"driver": comp, "cfg": cfg, "recorded_events": trs.get("metrics", [])[:4]})
    ctx.extra["race_reports"] = nraces
    ctx.extra["drivers"] = [d[0] for d in comps]
    if replay:
        if ctx.violations or ctx.hangs:
            for v in ctx.violations:
                print("REPORT %s %s" % (v["clause"], v["signature"]))
            print("VIOLATION property=C09 replay=%s" % replay)
            return 1
        print("replay: no report")
        return 0
    return vlib.finish(ctx, "exploration",
                       "execution = one run of a goroutine driver (rr with administration, connlimit, breaker, RTMetrics readers/writers, "
                       "rate limiter, rebalancer with administration, full stack) in the -race build; distinct = distinct (driver, round); "
                       "a run is non-trivial when it produced hook events or totals",
                       ASSUMPTIONS)
