"""C15 - buffer enforces its size limits and leaves no temporary files behind."""
import random

import vlib
import bufcommon as BC

PFX = ["C15."]
INV = ["RequestLimit", "ResponseLimit", "NoTempFiles"]


def seeded(ctx, n):
    rng = random.Random(ctx.seed * 733 + 15)
    out = []
    for i in range(n):
        mem = rng.choice([1, 4, 16, 100])
        mx = rng.choice([-1, 0, mem - 1 if mem > 1 else 1, mem, mem + 1, 4 * mem])
        memr = rng.choice([1, 4, 16, 100])
        mxr = rng.choice([-1, 0, memr, memr + 1, 4 * memr])
        ast = rng.choice([BC.NONE, {"k": "and", "l": {"k": "neterr"}, "r": {"k": "attempts", "op": "<", "c": 3}}])
        cfg = {"memReq": mem, "maxReq": mx, "memResp": memr, "maxResp": mxr}
        if ast["k"] != "none":
            cfg["ast"], cfg["expr"] = ast, BC.render(ast)
        steps = []
        for _ in range(30):
            lim = mx if mx > 0 else 4 * mem
            size = max(0, rng.choice([0, 1, mem - 1, mem, mem + 1, lim - 1, lim, lim + 1, 2 * lim + 3]))
            rl = mxr if mxr > 0 else 4 * memr
            tot = max(0, rng.choice([0, 1, memr, memr + 1, rl - 1, rl, rl + 1, 3 * rl]))
            chunks = []
            left = tot
            while left > 0:
                c = min(left, rng.choice([1, memr, left, max(1, left // 2)]))
                chunks.append(c)
                left -= c
            if rng.random() < 0.15 and mxr > 0:      # a first write that alone exceeds the maximum, then writes that fit but cross the memory threshold
                chunks = [mxr + rng.randint(1, 3)] + [max(1, min(mxr, memr + rng.randint(1, 2)))] * rng.randint(1, 2)
            nat = rng.randint(1, 3)
            scripts = []
            for k in range(nat):
                last = k == nat - 1
                scripts.append({"status": rng.choice([200, 200, 204, 304, 404, 0]) if last else 502,
                                "writes": chunks if last or rng.random() < 0.5 else [memr + 2],
                                "cl0": last and rng.random() < 0.15, "grpc": last and rng.random() < 0.1, "read": rng.choice(["all", "all", "copy"]), "via": rng.choice(["write", "write", "copy"]), "mut": "none",
                                "panic": last and rng.random() < 0.12})      # the final attempt aborts after its writes
            steps.append({"method": rng.choice(["GET", "POST", "HEAD", "PUT"]), "framing": rng.choice(["declared", "chunked", "unknown"]),
                          "size": size, "hdrs": ["X-A"], "scripts": scripts})
        out.append({"id": "rnd-%d" % i, "cfg": cfg, "steps": steps})
    return out


def run(ctx, replay):
    quick = ctx.quick()
    if replay:
        return BC.replay_one(ctx, replay, PFX)
    rng = random.Random(ctx.seed + 15)
    cfgs, reqs, sets = BC.small_space(quick)
    vlib.mc(ctx, "MC_Buffer", vlib.make_cfg(constants=BC.mc_constants(cfgs, reqs, sets), invariants=INV), "buffer-limits-files")
    vlib.mc(ctx, "MC_Buffer", vlib.make_cfg(constants=BC.mc_constants(cfgs, reqs[:10], sets, leak=True), invariants=INV),
            "buffer-asis-leak-without-reader", expect="NoTempFiles")
    scs = BC.exchanges_for(cfgs, reqs, sets, rng, limit=400 if quick else None)
    scs += seeded(ctx, 60 if quick else 600)
    BC.execute(ctx, scs, "c15", PFX)
    return vlib.finish(ctx, "model_checking",
                       "exchange = request / response sizes around the memory threshold and the maximum (threshold below, at, above "
                       "the maximum; 0 = unlimited) x framing x write chunking x method x status kind (incl. bodyless kinds that still "
                       "write) x up to 3 attempts; TMPDIR listed after every exchange; non-trivial = body or >1 attempt",
                       BC.ASSUMPTIONS, exhaustive=not quick)
