"""Shared pieces of the balancer checks (C01, C02, C11): model-checking configurations, scenario
generators and the classification of contract reports."""
import random
from math import gcd
from functools import reduce

import vlib
from vlib import Raw

KEYS = ["a", "b", "c", "d", "e", "f", "g", "h"]


def mc_constants(keys=3, variants=(0, 1), maxw=3, maxadmin=4, extra=2, strict=False, zeroguard=True):
    return {
        "Keys": Raw("{" + ", ".join('"%s"' % k for k in KEYS[:keys]) + "}"),
        "Variants": Raw("{" + ", ".join(str(v) for v in variants) + "}"),
        "MaxW": maxw, "MaxAdmin": maxadmin, "ExtraPicks": extra,
        "StrictCmp": strict, "ZeroGuard": zeroguard,
    }


C01_INV = ["LiteralExact", "IncrementalExact", "ZeroNeverChosen", "NoDivergence"]
C02_INV = ["MembersMatch", "AdminResultOK", "RoutedIsMember", "NoDivergence"]


def tlc_behaviours(ctx, num, depth, maxadmin, seed, keys=3, maxw=3):
    consts = mc_constants(keys=keys, maxw=maxw, maxadmin=maxadmin)
    consts["Depth"] = depth
    cfg = vlib.make_cfg(spec="GSpec", constants=consts, invariants=["Emit"])
    return vlib.gen_tlc(ctx, "Gen_RR", cfg, "gen-rr-%d" % seed, num=num, depth=depth + 1, seed=seed)


def W_of(weights):
    pos = [w for w in weights if w > 0]
    if not pos:
        return 0
    g = reduce(gcd, pos)
    return sum(pos) // g


def random_pool(rng, maxn, wcap):
    """Weight vectors with common factors, zeros and very unequal weights, W bounded by wcap."""
    for _ in range(200):
        n = rng.randint(1, maxn)
        style = rng.choice(["small", "factor", "unequal", "zeros", "pow2", "equal"])
        if style == "small":
            ws = [rng.randint(1, 6) for _ in range(n)]
        elif style == "factor":
            f = rng.choice([2, 3, 5, 7, 16, 64, 100])
            ws = [f * rng.randint(1, 5) for _ in range(n)]
        elif style == "unequal":
            ws = [rng.choice([1, 1, 2, 4096, 1000, 333]) for _ in range(n)]
        elif style == "zeros":
            ws = [rng.choice([0, 0, 1, 2, 3]) for _ in range(n)]
        elif style == "pow2":
            ws = [2 ** rng.randint(0, 12) for _ in range(n)]
        else:
            ws = [rng.choice([1, 7, 4096])] * n
        if W_of(ws) <= wcap:
            return ws
    return [1] * rng.randint(1, maxn)


def pool_setup_steps(rng, ws, keys=None, history=True, variants=5):
    """Admin calls that end with pool weights ws (keys in order), optionally after a random prior history."""
    keys = keys or KEYS[:len(ws)]
    steps = []
    if history:
        for _ in range(rng.randint(0, 4)):
            k = rng.choice(KEYS)
            op = rng.choice(["upsert", "upsert", "remove", "pick"])
            if op == "upsert":
                steps.append({"op": "upsert", "k": k, "v": rng.randrange(variants), "w": rng.choice([-1, 0, 1, 3, 9])})
            elif op == "remove":
                steps.append({"op": "remove", "k": k, "v": rng.randrange(variants)})
            else:
                steps.append({"op": "pick"})
        # clear whatever the history left behind
        for k in KEYS:
            steps.append({"op": "remove", "k": k, "v": 0})
    for k, w in zip(keys, ws):
        if w == 0:
            steps.append({"op": "upsert", "k": k, "v": rng.randrange(variants), "w": 1})
            steps.append({"op": "upsert", "k": k, "v": rng.randrange(variants), "w": 0})
        else:
            steps.append({"op": "upsert", "k": k, "v": rng.randrange(variants), "w": w})
    return steps


def add_family(rng, quick, prefix="add", serve=False):
    """A NEW server added as the last change, after 0..2n selections, to every small pool over weights {0,1,2(,3)} (zeros are
    set by an update, as the API requires): the rotation must restart whatever position and weight level it had reached."""
    import itertools
    out = []
    wset = (0, 1, 2) if quick else (0, 1, 2, 3)
    j = 0
    for n in ((2, 3) if quick else (2, 3, 4)):
        for ws in itertools.product(wset, repeat=n):
            if not any(ws):
                continue
            for k in range(0, 2 * n + 1):
                nw = rng.choice([1, 2, 3])
                keys = KEYS[:n + 1]
                subject = rng.choice(["rr", "rb"]) if serve else "rr"
                sel = {"op": "serve", "mut": "none"} if serve else {"op": "pick"}
                steps = pool_setup_steps(rng, list(ws), keys=keys[:n], history=False, variants=1)
                steps += [dict(sel) for _ in range(k)]
                steps.append({"op": "upsert", "k": keys[n], "v": 0, "w": nw})
                steps += [dict(sel) for _ in range(2 * W_of(list(ws) + [nw]) + 3)]
                out.append({"id": "%s-%d" % (prefix, j), "cfg": {"subject": subject, "table": j}, "steps": steps})
                j += 1
    return out


def refused_family(rng, quick, prefix="refused", subjects=("rr",)):
    """Administration calls that are REFUSED (unknown server removed, invalid weight for a known or a new server, a refused
    add) between selections: they change nothing, so the rotation goes on where it was."""
    out = []
    for j in range(40 if quick else 300):
        n = rng.randint(2, 4)
        ws = [rng.choice([1, 1, 2, 3]) for _ in range(n)]
        keys = KEYS[:n]
        subject = rng.choice(list(subjects))
        steps = pool_setup_steps(rng, ws, keys=keys, history=False, variants=1)
        for _ in range(rng.randint(8, 20)):
            steps.append({"op": "pick"} if subject == "rr" and rng.random() < 0.6 else {"op": "serve", "mut": "none"})
            x = rng.random()
            if x < 0.35:
                steps.append({"op": "remove", "k": KEYS[n + rng.randrange(2)], "v": 0})            # unknown server
            elif x < 0.6:
                steps.append({"op": "upsert", "k": rng.choice(keys), "v": 0, "w": -1, "w2": -1, "keepvar": True})  # known, invalid
            elif x < 0.75:
                steps.append({"op": "upsert", "k": KEYS[n + rng.randrange(2)], "v": 0, "w": -1, "w2": -1})        # new, invalid
            elif x < 0.85 and subject != "rr":
                steps.append({"op": "upsert", "k": KEYS[n + rng.randrange(2)], "v": 0, "w": 1, "meterfail": True})
        out.append({"id": "%s-%d" % (prefix, j), "cfg": {"subject": subject, "table": j}, "steps": steps})
    return out


def classify(clause, sc, report, evs):
    """Signature of a contract report: clause + the abstract situation in which it happened."""
    subject = sc.get("cfg", {}).get("subject", "rr")
    sig = "%s/%s" % (clause, subject)
    if evs:
        # the event that was rejected is at (line - line of Reset) within the scenario
        pass
    return sig


ASSUMPTIONS = [
    "TLC 1.8 and the CommunityModules JSON reader are trusted",
    "the harness maps concrete URLs to abstract [k, v] pairs by exact string comparison with its table",
    "hook events rr.pick/rr.upsert/rr.remove are emitted inside RoundRobin.mutex (one line each in rr.go)",
    "exhaustive results are for the stated bounds; larger pools/weights are covered by seeded scenarios only",
]


def shape(sc):
    """abstract shape of a scenario used for distinct counting"""
    ops = []
    for st in sc["steps"]:
        ops.append((st["op"], st.get("k", ""), st.get("w", ""), st.get("mut", ""), st.get("cookie", "")))
    return (sc.get("cfg", {}).get("subject", "rr"), sc.get("cfg", {}).get("sticky", ""), tuple(ops))


def nontrivial(sc):
    ws = {}
    for st in sc["steps"]:
        if st["op"] == "upsert":
            ws[st["k"]] = st.get("w", -1)
        elif st["op"] == "remove":
            ws.pop(st["k"], None)
    return len(sc["steps"]) >= 3 and (len(set(ws.values())) >= 2 or 0 in ws.values() or
                                      any(st["op"] in ("remove", "serve") for st in sc["steps"]))


def execute(ctx, scs, tag, prefixes, component="rr", module="Trace_RR"):
    if not scs:
        return
    tp = vlib.run_scenarios(ctx, component, scs, tag)
    res = vlib.validate_trace(ctx, module, tp, tag)
    by_id = {s["id"]: s for s in scs}
    vlib.collect(ctx, res, by_id, component, classify, prefixes, vlib.scenario_traces(tp))
    ctx.traces += len(scs)
    for s in scs:
        if nontrivial(s):
            ctx.distinct.add(shape(s))
    if not ctx.samples:
        tr = vlib.scenario_traces(tp)
        for s in scs[:2] + scs[-1:]:
            ctx.samples.append({"scenario": {"id": s["id"], "cfg": s["cfg"], "steps": s["steps"][:14]},
                                "recorded_events": tr.get(s["id"], [])[:8]})


def concurrent(ctx, prefixes, admin=False, tag="conc"):
    """Goroutine drivers with hooks on; the hook-ordered combined history is validated by the same contract."""
    rounds = 3 if ctx.quick() else 12
    tp = vlib.os.path.join(ctx.work, "trace-%s.ndjson" % tag)
    cfg = {"rounds": rounds, "goroutines": 8 if ctx.quick() else 16, "picks": 150 if ctx.quick() else 600,
           "admin": admin, "adminops": 25 if ctx.quick() else 80}
    p = vlib.run_harness(ctx, ["stress", "rr", "-trace", tp, "-seed", str(ctx.seed), "-cfg", vlib.json.dumps(cfg)],
                         allow_fail=True)
    if p.returncode == 3:
        ctx.hangs.append({"id": "stress", "cfg": {"subject": "rr", "stress": cfg}, "steps": [], "component": "rr-stress"})
        return
    if p.returncode != 0:
        raise vlib.InfraError("stress driver failed: " + p.stderr[-2000:])
    res = vlib.validate_trace(ctx, "Trace_RR", tp, tag)
    trs = vlib.scenario_traces(tp)
    by_id = {k: {"id": k, "cfg": {"subject": "rr", "stress": cfg}, "steps": [], "recorded": v[:400]} for k, v in trs.items()}
    vlib.collect(ctx, res, by_id, "rr-stress", classify, prefixes, trs)
    ctx.traces += len(trs)
    ctx.scenarios += len(trs)
    ctx.extra.setdefault("concurrent_histories", 0)
    ctx.extra["concurrent_histories"] += len(trs)


def replay(ctx, path, prefixes):
    rec = vlib.json.load(open(path))
    sc = rec["scenario"]
    if rec.get("component") == "rebaladmin-stress":
        tp = vlib.os.path.join(ctx.work, "trace-replay.ndjson")
        p = vlib.run_harness(ctx, ["stress", "rebaladmin", "-trace", tp, "-seed", str(rec.get("seed", 1)),
                                   "-cfg", vlib.json.dumps(sc["cfg"]["stress"])])
        res = vlib.validate_trace(ctx, "Trace_Conc", tp, "replay")
        if res["bad"]:
            print("VIOLATION property=%s replay=%s" % (ctx.pid, path))
            return 1
        print("replay: the concurrent driver did not reproduce the report in this run")
        return 0
    if rec.get("component") == "rr-stress":
        print("replay of a concurrent history: re-validating the recorded events")
        tp = vlib.os.path.join(ctx.work, "trace-replay.ndjson")
        with open(tp, "w") as f:
            for ev in sc["recorded"]:
                f.write(vlib.json.dumps(ev) + "\n")
        res = vlib.validate_trace(ctx, "Trace_RR", tp, "replay")
    else:
        tp = vlib.run_scenarios(ctx, rec.get("component", "rr"), [sc], "replay")
        res = vlib.validate_trace(ctx, "Trace_RR", tp, "replay")
        for ev in vlib.scenario_traces(tp).get(sc["id"], []):
            print(vlib.json.dumps(ev))
    bad = [b for b in res["bad"] if any(b["clause"].startswith(p) for p in prefixes)]
    for b in bad:
        print("REPORT line=%s clause=%s" % (b["line"], b["clause"]))
    if bad:
        print("VIOLATION property=%s replay=%s" % (ctx.pid, path))
        return 1
    print("replay: no contract report")
    return 0
