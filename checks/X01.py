"""X01 (extension, not one of the listed properties) - rate sets that change between requests: TokenLimiter with an
ExtractRates option and TokenBucketSet.Update.  RateUpdate.tla models Update per period; the contract is C03's bound counted
from the instant the rate configured for a period last changed."""
import random

import vlib
from vlib import Raw, Def
import ratecommon as RC

PFX = ["X01."]
ASSUMPTIONS = RC.ASSUMPTIONS + ["extension check: not part of MANIFEST.json; a mismatch between RateUpdate.tla and the code is "
                                "reported as X01.ModelAgrees"]


def fam_tla(fam):
    return Def("{" + ", ".join("<<" + ", ".join("[p |-> %d, a |-> %d, b |-> %d]" % r for r in rs) + ">>" for rs in fam) + "}")


def mc_consts(fam, amounts, advances, maxreq, horizon, keep=False):
    return {"Family": fam_tla(fam), "Tps": 1, "Amounts": Raw("{" + ", ".join(map(str, amounts)) + "}"),
            "Advances": Raw("{" + ", ".join(map(str, advances)) + "}"), "MaxReq": maxreq, "Horizon": horizon, "RefillOnUpdate": keep}


def random_sets(rng, tps):
    """a table of named rate sets: several share periods with different averages / bursts, some have periods the others lack"""
    periods = [1, 2, 5, 10, 60]
    table = {}
    for name in "ABCDEF"[:rng.randint(2, 6)]:
        n = rng.choice([1, 1, 2, 2, 3])
        rs = []
        for sec in sorted(rng.sample(periods, n)):
            p = sec * tps
            divs = [a for a in range(1, min(p, 40) + 1) if p % a == 0]
            a = rng.choice(divs)
            rs.append({"p": p, "a": a, "b": rng.randint(1, 5 * a)})
        table[name] = rs
    return table


def scenarios(ctx):
    rng = random.Random(ctx.seed * 6151 + 1)
    quick = ctx.quick()
    out = []
    for i in range(60 if quick else 600):
        tick = rng.choice([100, 250, 500, 1000])
        tps = 1000 // tick
        table = random_sets(rng, tps)
        names = sorted(table)
        level = rng.choice(["http", "set"])
        sources = ["s1"] if level == "set" else ["s%d" % j for j in range(1, rng.randint(1, 3) + 1)]
        steps, cur = [], {s: rng.choice(names) for s in sources}
        for _ in range(120 if quick else 400):
            x = rng.random()
            src = rng.choice(sources)
            if x < 0.15:
                cur[src] = rng.choice(names)
            maxb = max(r["b"] for r in table[cur[src]])
            minb = min(r["b"] for r in table[cur[src]])
            if x < 0.7:
                rs = cur[src]
                if level == "http" and rng.random() < 0.08:
                    rs = rng.choice(["err", "empty", ""])      # extractor fails / returns nothing: the default set applies
                steps.append({"op": "req", "src": src, "n": rng.choice([1, 1, 1, 2, minb, minb + 1, maxb]), "rs": rs})
            elif x < 0.95:
                steps.append({"op": "adv", "d": rng.choice([1, 1, 2, 3, tps, 2 * tps, 5 * tps])})
            else:
                ttl = (max(r["p"] for r in table[cur[src]]) // tps * 10 + 1) * tps
                steps.append({"op": "adv", "d": ttl + rng.choice([-tps, -1, 0, 1, tps])})
        out.append({"id": "upd-%d" % i, "cfg": {"tick_ms": tick, "cap": 65536, "level": level, "ratesets": table, "default": names[0]},
                    "steps": steps})
    return out


def classify(clause, sc, report, evs):
    return clause


def run(ctx, replay):
    quick = ctx.quick()
    fam = [[(2, 1, 2)], [(2, 2, 1)], [(2, 1, 2), (6, 2, 3)], [(6, 1, 1)]]
    inv = ["BoundSinceRateChange", "TokensWithinBurst", "PeriodsFollow"]
    if replay:
        rec = vlib.json.load(open(replay))
        scs = [rec["scenario"]]
    else:
        vlib.mc(ctx, "MC_RateUpdate", vlib.make_cfg(constants=mc_consts(fam, [1, 2, 3], [1, 2, 3], 6 if quick else 7, 14 if quick else 18),
                                                    invariants=inv), "rateupdate")
        vlib.mc(ctx, "MC_RateUpdate", vlib.make_cfg(constants=mc_consts(fam, [1, 2], [1, 2], 4, 8, keep=True), invariants=inv),
                "rateupdate-mutant-refill-on-update", expect=["TokensWithinBurst", "BoundSinceRateChange"])
        scs = scenarios(ctx)
    tp = vlib.run_scenarios(ctx, "rateupd", scs, "x01")
    res = vlib.validate_trace(ctx, "Trace_RateUpd", tp, "x01")
    trs = vlib.scenario_traces(tp)
    for dft in res.get("drift", []):        # for an extension check the model's prediction is part of the verdict
        res.setdefault("bad", []).append({"scn": dft["scn"], "line": dft["line"], "clause": "X01.ModelAgrees"})
    res["drift"] = []
    vlib.collect(ctx, res, {s["id"]: s for s in scs}, "rateupd", classify, PFX + ["TRACE."], trs)
    ctx.traces += len(scs)
    for s in scs:
        evs = trs.get(s["id"], [])
        outs = {e.get("out") for e in evs if e.get("e") == "Req"}
        if "limit" in outs and len({e.get("rs") for e in evs if e.get("e") == "Req"}) > 1:
            ctx.distinct.add(s["id"])
    return vlib.finish(ctx, "model_checking",
                       "scenario = named rate sets (shared and disjoint periods) switched between the requests of a source, at the "
                       "HTTP surface (ExtractRates; failing / empty extraction falls back to the default set) and at "
                       "TokenBucketSet level (Update + Consume, tokens read back); non-trivial = rate set switched and a rejection seen",
                       ASSUMPTIONS)
