"""C14 - limiter decisions for one source are independent of all other sources."""
import random

import vlib
import ratecommon as RC
import C03
import C04

SETS = [[(1, 1, 2)], [(2, 1, 3)]]


def scenarios(ctx):
    rng = random.Random(ctx.seed * 4409 + 14)
    quick = ctx.quick()
    out = RC.tlc_scenarios(ctx, "tlc", ["s1", "s2", "s3"], SETS + [[(1, 1, 1), (3, 1, 2)]], 1, 3, [1, 2], [1, 2, 12], 80 if quick else 800,
                           30, ctx.seed, extra_cfg={"solo": True})
    for i in range(40 if quick else 400):
        tick = rng.choice([100, 250, 500, 1000])
        tps = 1000 // tick
        rates = RC.random_rates(rng, tps)
        nsrc = rng.choice([2, 3, 5, 12, 50])
        sources = ["s%d" % j for j in range(1, nsrc + 1)]
        steps = RC.arrival_pattern(rng, rates, tps, 200 if quick else 700, sources)
        extract = rng.choice(["custom", "header", "ip"])
        out.append({"id": "rnd-%d" % i, "cfg": {"tick_ms": tick, "rates": rates, "cap": rng.choice([nsrc, nsrc + 1, 65536]),
                                                "level": "http", "extract": extract, "qualified": True, "solo": True}, "steps": steps})
    # more sources than the capacity: only the tracked source nearest to expiry may be forgotten. The harness applies that
    # rule to the timeline and lets the evicted source's solo run forget at exactly those points; all decisions must still
    # equal the solo decisions (timelines are cut at the first tie between equally old entries).
    for i in range(60 if quick else 600):
        tps = rng.choice([1, 2, 10])
        rates = RC.random_rates(rng, tps, multi=1)
        cap = rng.randint(1, 4)
        nsrc = cap + rng.randint(1, 3)
        sources = ["s%d" % j for j in range(1, nsrc + 1)]
        ttl = RC.ttl_ticks(rates, tps)
        steps = []
        for _ in range(120 if quick else 400):
            x = rng.random()
            if x < 0.7:
                steps.append({"op": "req", "src": rng.choice(sources if rng.random() < 0.5 else sources[:cap]), "n": 1})
            elif x < 0.9:
                steps.append({"op": "adv", "d": rng.choice([tps, tps, 2 * tps, 3 * tps])})
            else:
                steps.append({"op": "adv", "d": ttl + rng.choice([-tps, 0, tps, 4 * tps])})
        out.append({"id": "overcap-%d" % i, "cfg": {"tick_ms": 1000 // tps, "rates": rates, "cap": cap, "level": "http",
                                                    "extract": "custom", "qualified": False, "solo": True, "overcap": True}, "steps": steps})
    # per-source rates from a rate extractor (the ExtractRates option): a source's entry lives ten times the longest period of
    # ITS rates, so "nearest to expiry" is not "least recently seen"; capacity pressure from sources on the default rates
    for i in range(40 if quick else 400):
        default = [{"p": rng.choice([1, 2]), "a": 1, "b": rng.choice([1, 2])}]
        cap = rng.randint(2, 4)
        nsrc = cap + rng.randint(1, 3)
        sources = ["s%d" % j for j in range(1, nsrc + 1)]
        special = {}
        for src in rng.sample(sources, rng.randint(1, 2)):
            special[src] = [{"p": rng.choice([30, 60, 120]), "a": rng.choice([1, 2]), "b": rng.choice([1, 2, 3])}]
        steps = []
        for _ in range(60 if quick else 200):
            x = rng.random()
            if x < 0.75:
                steps.append({"op": "req", "src": rng.choice(sources), "n": 1})
            else:
                steps.append({"op": "adv", "d": rng.choice([1, 1, 2, 3, 5, 12, 25])})
        out.append({"id": "extracted-%d" % i, "cfg": {"tick_ms": 1000, "rates": default, "srcrates": special, "cap": cap, "level": "http",
                                                      "extract": "custom", "qualified": False, "approx": True, "solo": True,
                                                      "overcap": True}, "steps": steps})
    return out


def run(ctx, replay):
    quick = ctx.quick()
    rng = random.Random(ctx.seed * 991 + 141)
    if replay:
        rec = vlib.json.load(open(replay))
        if rec.get("component") == "ttlmap":
            tp = vlib.run_scenarios(ctx, "ttlmap", [rec["scenario"]], "replay")
            res = vlib.validate_trace(ctx, "Trace_TTLMap", tp, "replay")
            bad = [b for b in res["bad"] if b["clause"].startswith("C14.")]
            for b in bad[:10]:
                print("REPORT line=%s clause=%s" % (b["line"], b["clause"]))
            if bad:
                print("VIOLATION property=C14 replay=%s" % replay)
                return 1
            print("replay: no contract report")
            return 0
        if rec.get("component") == "conn":
            ctx.pid = "C14"
            return C04.run(ctx, replay)
        return C03.replay_one(ctx, replay, ["C14."])
    vlib.mc(ctx, "MC_Rate", vlib.make_cfg(constants=RC.consts(["s1", "s2"], SETS, 1, 2, [1, 2], [1, 2], 6 if quick else 7,
                                                               10 if quick else 12, solo=True), invariants=["SameAsSolo"]), "rate-solo")
    vlib.mc(ctx, "MC_Rate", vlib.make_cfg(constants=RC.consts(["s1", "s2"], SETS, 1, 1, [1, 2], [1, 2], 6, 10, solo=True),
                                          invariants=["SameAsSolo"]), "rate-over-capacity", expect="SameAsSolo")
    vlib.mc(ctx, "ConnLimit", vlib.make_cfg(constants=C04.consts(3, 5 if quick else 6, 2), invariants=C04.INV, constraint="Ordered"),
            "conn-independent")
    scs = scenarios(ctx)
    C03.execute(ctx, scs, "c14", ["C14."])
    # connection limiter: a request is admitted iff its own source is below the limit, whatever the others do
    behs = vlib.gen_tlc(ctx, "Gen_Conn", vlib.make_cfg(spec="GSpec", constants=C04.consts(3, 8, 3, depth=16), invariants=["Emit"]),
                        "gen-conn-sim", num=150 if quick else 1500, depth=17, seed=ctx.seed)
    cs = C04.to_scenarios(behs, "conn-sim", extract="ip") + C04.seeded(ctx, 30 if quick else 300, 80 if quick else 300)
    tp = vlib.run_scenarios(ctx, "conn", cs, "c14-conn")
    res = vlib.validate_trace(ctx, "Trace_Conn", tp, "c14-conn")
    for b in res["bad"]:
        if b["clause"] in ("C04.NeverExceedsMax", "C04.RejectOnlyAtMax"):
            b["clause"] = "C14.Conn" + b["clause"][4:]
    vlib.collect(ctx, res, {s["id"]: s for s in cs}, "conn", C03.classify, ["C14."])
    ctx.traces += len(cs)
    # the TTL map itself (reached through the tagged re-export): which entry is forgotten when the map is full
    tc = lambda wrong: {"Keys": vlib.Raw('{"a", "b", "c"}'), "Caps": vlib.Raw("{0, 1, 2}"), "Ttls": vlib.Raw("{0, 1, 3}"),
                        "Advances": vlib.Raw("{1, 2}"), "MaxOps": 6 if quick else 7, "WrongVictim": wrong}
    inv = ["WithinCapacity", "GetReturnsLastSet", "EvictsNearestExpiry"]
    vlib.mc(ctx, "MC_TTLMap", vlib.make_cfg(constants=tc(False), invariants=inv), "ttlmap")
    vlib.mc(ctx, "MC_TTLMap", vlib.make_cfg(constants=dict(tc(True), MaxOps=5), invariants=inv), "ttlmap-mutant-any-victim",
            expect="EvictsNearestExpiry")
    ts = []
    for i in range(60 if quick else 600):
        cap = rng.choice([0, 1, 2, 3, 5])
        keys = list("abcdefg")[:cap + rng.randint(1, 3)]
        steps = []
        for _ in range(80 if quick else 250):
            x = rng.random()
            if x < 0.45:
                steps.append({"op": "set", "k": rng.choice(keys), "v": rng.randint(1, 9), "ttl": rng.choice([0, 1, 2, 3, 5, 10, 30])})
            elif x < 0.8:
                steps.append({"op": "get", "k": rng.choice(keys)})
            else:
                steps.append({"op": "adv", "d": rng.choice([1, 1, 2, 3, 10])})
        ts.append({"id": "ttl-%d" % i, "cfg": {"cap": cap}, "steps": steps})
    # large capacities: fill the map completely (nothing expired), then insert further keys: exactly one entry may go each time
    for j, cap in enumerate([200, 257] if quick else [200, 257, 300, 1000]):
        steps = []
        for i in range(cap):
            steps.append({"op": "set", "k": "k%d" % i, "v": 1, "ttl": 100000})
            if i % 10 == 0:
                steps.append({"op": "adv", "d": 1})
        for i in range(cap, cap + 4):
            steps.append({"op": "set", "k": "k%d" % i, "v": 1, "ttl": 100000})
            steps.append({"op": "adv", "d": 1})
        steps += [{"op": "get", "k": "k%d" % i} for i in (0, 1, 2, 3, 4, 5, 50, cap - 1, cap + 3)]
        ts.append({"id": "ttl-big-%d" % j, "cfg": {"cap": cap}, "steps": steps})
    tp = vlib.run_scenarios(ctx, "ttlmap", ts, "c14-ttlmap")
    res = vlib.validate_trace(ctx, "Trace_TTLMap", tp, "c14-ttlmap")
    vlib.collect(ctx, res, {s["id"]: s for s in ts}, "ttlmap", C03.classify, ["C14."])
    ctx.traces += len(ts)
    return vlib.finish(ctx, "model_checking",
                       "rate limiter: joint run of several sources and, on a fresh limiter, the solo run of every source with the "
                       "same times; each decision must equal the solo decision. connection limiter: admitted iff the own source "
                       "is below the limit. distinct = distinct (rates, steps); non-trivial = >= 2 sources with a rejection",
                       RC.ASSUMPTIONS)
