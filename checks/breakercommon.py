"""Shared pieces of the circuit-breaker checks (C05, C12, C18)."""
import random

import vlib
from vlib import Raw

ASSUMPTIONS = [
    "TLC 1.8 and the CommunityModules JSON reader are trusted",
    "transitions are observed through the cb.state hook (one line in setState, inside the breaker's lock); decisions through "
    "the gate handler (entered) and a counting fallback handler",
    "oxy clock frozen; time in ticks; latencies are produced by advancing the clock while a request is held in flight",
    "metric window arithmetic: the contract reads the metrics only when no recorded response lies in the band between the "
    "guaranteed (9 s) and maximal (10 s) counter window; latency predicates only while every response is younger than 50 s",
    "exhaustive runs use a 3-step metrics window (the code's 10 x 1 s window is used in trace validation)",
]

OPS = ["<", "<=", ">", ">=", "==", "!="]
FRACS = [(0, 1), (1, 10), (1, 4), (1, 3), (1, 2), (2, 3), (3, 4), (1, 1)]
NETERR = {"k": "neterr", "op": ">", "num": 1, "den": 2}


def flt(num, den, eps=0):
    if eps:
        # a literal 1e-10 away from the fraction: far closer than any two ratios of small counts, far more than a rounding error
        return "%.12f" % (num / den + eps * 1e-10)
    s = repr(num / den)
    return s if "." in s else s + ".0"


def render(ast, full=False):
    k = ast["k"]
    if k in ("and", "or"):
        op = " && " if k == "and" else " || "
        l, r = render(ast["l"], full), render(ast["r"], full)
        if full:
            return "(" + l + ")" + op + "(" + r + ")"
        if k == "and":
            if ast["l"]["k"] == "or":
                l = "(" + l + ")"
            if ast["r"]["k"] in ("or", "and"):
                r = "(" + r + ")"
        else:
            if ast["r"]["k"] == "or":
                r = "(" + r + ")"
        return l + op + r
    if k == "neterr":
        return "NetworkErrorRatio() %s %s" % (ast["op"], flt(ast["num"], ast["den"], ast.get("eps", 0)))
    if k == "coderatio":
        return "ResponseCodeRatio(%d, %d, %d, %d) %s %s" % (ast["a1"], ast["a2"], ast["b1"], ast["b2"], ast["op"], flt(ast["num"], ast["den"], ast.get("eps", 0)))
    if k == "latency":
        return "LatencyAtQuantileMS(%d.0) %s %d" % (ast["q"], ast["op"], ast["ms"])
    raise ValueError(k)


def random_leaf(rng):
    f = rng.choice(["neterr", "coderatio", "coderatio", "latency"])
    op = rng.choice(OPS)
    num, den = rng.choice(FRACS)
    eps = rng.choice([0, 0, 1, -1]) if num > 0 else rng.choice([0, 0, 1])
    if f == "neterr":
        return {"k": "neterr", "op": op, "num": num, "den": den, "eps": eps}
    if f == "coderatio":
        a1, a2 = rng.choice([(500, 600), (500, 505), (400, 500), (200, 300), (502, 503)])
        b1, b2 = rng.choice([(0, 600), (200, 300), (0, 500)])
        return {"k": "coderatio", "a1": a1, "a2": a2, "b1": b1, "b2": b2, "op": op, "num": num, "den": den, "eps": eps}
    return {"k": "latency", "q": rng.choice([50, 90, 99, 100]), "op": rng.choice(["<", "<=", ">", ">=", ">", ">="]),
            "ms": rng.choice([50, 300, 1000, 3000])}


def random_ast(rng, depth):
    if depth == 0 or rng.random() < 0.3:
        return random_leaf(rng)
    return {"k": rng.choice(["and", "or"]), "l": random_ast(rng, depth - 1), "r": random_ast(rng, depth - 1)}


def mc_consts(nreq, horizon, durations, checks, advances=(1, 2), win=3, shieldbug=False, rampbug=False, depth=None, inflight=2):
    st = lambda xs: Raw("{" + ", ".join(map(str, xs)) + "}")
    c = {"Reqs": st(range(1, nreq + 1)), "Codes": st([200, 502]), "Durations": st(durations), "CheckPeriods": st(checks),
         "Advances": st(advances), "MaxInflight": inflight, "Horizon": horizon, "Win": win, "ShieldBug": shieldbug, "RampBug": rampbug}
    if depth is not None:
        c["Depth"] = depth
    return c


def tlc_scenarios(ctx, prefix, num, depth, seed, nreq=12):
    c = mc_consts(nreq, 10 ** 6, [2, 3, 5], [1, 2], advances=(1, 2, 3), depth=depth)
    behs = vlib.gen_tlc(ctx, "Gen_Breaker", vlib.make_cfg(spec="GSpec", constants=c, invariants=["Emit"]),
                        "gen-breaker-" + prefix, num=num, depth=depth + 1, seed=seed)
    out = []
    for i, b in enumerate(behs):
        # model ticks are seconds (tps = 1): run with a 1 s tick so that the metrics window arithmetic is the code's
        out.append({"id": "%s-%d" % (prefix, i),
                    "cfg": {"tick_ms": 1000, "fallback": b["fallback"], "recovery": b["recovery"], "check": b["check"],
                            "expr": render(NETERR), "ast": NETERR}, "steps": b["steps"]})
    return out


def history(rng, length, tick_ms, codes_ok=(200, 201, 404), codes_bad=(500, 502, 504), maxinflight=3, lat_ticks=(0, 0, 1, 5, 20)):
    """request histories with phases (healthy / failing / slow), overlapping requests and clock advances"""
    steps, running, rid = [], [], 0
    phase = "ok"
    while len(steps) < length:
        if rng.random() < 0.08:
            phase = rng.choice(["ok", "bad", "mixed", "slow"])
        x = rng.random()
        if running and (x < 0.45 or len(running) >= maxinflight):
            r = running.pop(rng.randrange(len(running)))
            if phase == "ok":
                code = rng.choice(codes_ok)
            elif phase == "bad":
                code = rng.choice(codes_bad)
            else:
                code = rng.choice(codes_ok + codes_bad)
            if rng.random() < 0.12:   # any other status a handler or an error handler below can produce (499: client went away)
                code = rng.choice([204, 301, 304, 400, 429, 499, 499, 501, 503, 505, 599])
            if rng.random() < 0.06:
                steps.append({"op": "finish", "r": r, "abort": True})     # the protected handler aborts instead of answering
            else:
                steps.append({"op": "finish", "r": r, "code": code})
        elif x < 0.8:
            rid += 1
            running.append(rid)
            steps.append({"op": "start", "r": rid})
            if rng.random() < 0.1:    # the client has already gone away (cancelled context) when the request reaches the breaker
                steps[-1]["precancel"] = True
            if phase == "slow" or rng.random() < 0.3:
                d = rng.choice(lat_ticks)
                if d:
                    steps.append({"op": "adv", "d": d})
        else:
            steps.append({"op": "adv", "d": rng.choice([1, 1, 2, 3, 5, 10, 25])})
    return steps


def classify(clause, sc, report, evs):
    return clause


def execute(ctx, scs, tag, prefixes):
    tp = vlib.run_scenarios(ctx, "breaker", scs, tag)
    res = vlib.validate_trace(ctx, "Trace_Breaker", tp, tag)
    trs = vlib.scenario_traces(tp)
    vlib.collect(ctx, res, {s["id"]: s for s in scs}, "breaker", classify, prefixes, trs)
    ctx.traces += len(scs)
    for s in scs:
        evs = trs.get(s["id"], [])
        if any(e.get("trans") for e in evs):
            ctx.distinct.add(vlib.json.dumps([s["cfg"], s["steps"]], sort_keys=True))
    if not ctx.samples:
        s = scs[0]
        ctx.samples.append({"scenario": {"id": s["id"], "cfg": s["cfg"], "steps": s["steps"][:14]}, "recorded_events": trs[s["id"]][:10]})
    return res, trs


def stress(ctx, prefixes):
    tp = vlib.os.path.join(ctx.work, "trace-breaker-stress.ndjson")
    cfg = {"rounds": 30 if ctx.quick() else 200, "goroutines": 8}
    p = vlib.run_harness(ctx, ["stress", "breaker", "-trace", tp, "-seed", str(ctx.seed), "-cfg", vlib.json.dumps(cfg)], allow_fail=True)
    if p.returncode == 3:
        ctx.hangs.append({"id": "stress", "cfg": cfg, "steps": [], "component": "breaker-stress"})
        return
    if p.returncode != 0:
        raise vlib.InfraError("breaker stress failed: " + p.stderr[-2000:])
    res = vlib.validate_trace(ctx, "Trace_Breaker", tp, "breaker-stress")
    trs = vlib.scenario_traces(tp)
    vlib.collect(ctx, res, {k: {"id": k, "cfg": cfg, "steps": [], "recorded": v[:300]} for k, v in trs.items()},
                 "breaker-stress", classify, prefixes, trs)
    ctx.traces += len(trs)
    ctx.scenarios += len(trs)


def replay_one(ctx, path, prefixes):
    rec = vlib.json.load(open(path))
    sc = rec["scenario"]
    if rec.get("component") == "breaker-stress":
        tp = vlib.os.path.join(ctx.work, "trace-replay.ndjson")
        with open(tp, "w") as f:
            for ev in sc["recorded"]:
                f.write(vlib.json.dumps(ev) + "\n")
    else:
        tp = vlib.run_scenarios(ctx, "breaker", [sc], "replay")
    res = vlib.validate_trace(ctx, "Trace_Breaker", tp, "replay")
    bad = [b for b in res["bad"] if any(b["clause"].startswith(p) for p in prefixes)]
    evs = vlib.scenario_traces(tp).get(sc["id"], [])
    for ev in evs[:60]:
        print(vlib.json.dumps(ev))
    for b in bad[:10]:
        print("REPORT line=%s clause=%s event=%s" % (b["line"], b["clause"], vlib.json.dumps(evs[b["line"] - 1])))
    if bad or ctx.hangs:
        print("VIOLATION property=%s replay=%s" % (ctx.pid, path))
        return 1
    print("replay: no contract report")
    return 0
