"""Shared pieces of the buffer checks (C06, C07, C15)."""
import itertools
import random

import vlib
from vlib import Raw, Def

ASSUMPTIONS = [
    "TLC 1.8 and the CommunityModules JSON reader are trusted",
    "the harness handler compares method / URL / headers / ContentLength / TransferEncoding / body bytes with the client's "
    "request and reports booleans; each attempt marks its response (header X-Attempt, body bytes 'a'+k) so that the client side "
    "can tell which attempt's headers and bytes were delivered",
    "temp files are observed by listing a private TMPDIR after every exchange",
    "an attempt without explicit status may be read by the retry expression as 0 or as 200: invocation counts are demanded "
    "only when both readings agree",
]
OPS = ["<", "<=", ">", ">=", "==", "!="]
NONE = {"k": "none"}


def render(ast, full=False):
    k = ast["k"]
    if k in ("and", "or"):
        op = " && " if k == "and" else " || "
        l, r = render(ast["l"], full), render(ast["r"], full)
        if full:
            return "(" + l + ")" + op + "(" + r + ")"
        if k == "and":
            if ast["l"]["k"] == "or":
                l = "(" + l + ")"
            if ast["r"]["k"] in ("or", "and"):
                r = "(" + r + ")"
        elif ast["r"]["k"] == "or":
            r = "(" + r + ")"
        return l + op + r
    if k == "attempts":
        return "Attempts() %s %d" % (ast["op"], ast["c"])
    if k == "code":
        return "ResponseCode() %s %d" % (ast["op"], ast["c"])
    if k == "method":
        return 'RequestMethod() %s "%s"' % (ast["op"], ast["m"])
    if k == "neterr":
        return "IsNetworkError()"
    raise ValueError(k)


def tla(ast):
    k = ast["k"]
    if k in ("and", "or"):
        return '[k |-> "%s", l |-> %s, r |-> %s]' % (k, tla(ast["l"]), tla(ast["r"]))
    if k in ("attempts", "code"):
        return '[k |-> "%s", op |-> "%s", c |-> %d]' % (k, ast["op"], ast["c"])
    if k == "method":
        return '[k |-> "method", op |-> "%s", m |-> "%s"]' % (ast["op"], ast["m"])
    return '[k |-> "%s"]' % k


def leaves():
    out = [{"k": "neterr"}]
    for op in OPS:
        for c in (1, 2, 3):
            out.append({"k": "attempts", "op": op, "c": c})
        for c in (200, 500, 502, 503, 504):
            out.append({"k": "code", "op": op, "c": c})
    for op in ("==", "!="):
        for m in ("GET", "POST", "get", "Post", "GET ", "PUT"):     # method tokens are case-sensitive; blanks count
            out.append({"k": "method", "op": op, "m": m})
    return out


def random_ast(rng, depth):
    if depth == 0 or rng.random() < 0.35:
        return rng.choice(leaves())
    return {"k": rng.choice(["and", "or"]), "l": random_ast(rng, depth - 1), "r": random_ast(rng, depth - 1)}


def script_tla(sc):
    return '[status |-> %d, writes |-> <<%s>>, cl0 |-> %s, grpc |-> %s]' % (
        sc.get("status", 200), ", ".join(map(str, sc.get("writes", []))), "TRUE" if sc.get("cl0") else "FALSE",
        "TRUE" if sc.get("grpc") else "FALSE")


def cfg_tla(c):
    return '[memReq |-> %d, maxReq |-> %d, memResp |-> %d, maxResp |-> %d, ast |-> %s]' % (
        c["memReq"], c["maxReq"], c["memResp"], c["maxResp"], tla(c.get("ast", NONE)))


def req_tla(r):
    return '[method |-> "%s", framing |-> "%s", size |-> %d]' % (r["method"], r["framing"], r["size"])


def mc_constants(cfgs, reqs, scriptsets, implicit=False, empty=False, leak=False):
    return {"Cfgs": Def("{" + ", ".join(cfg_tla(c) for c in cfgs) + "}"),
            "Reqs": Def("{" + ", ".join(req_tla(r) for r in reqs) + "}"),
            "ScriptSets": Def("{" + ", ".join("<<" + ", ".join(script_tla(s) for s in ss) + ">>" for ss in scriptsets) + "}"),
            "ImplicitPanics": implicit, "EmptyFails": empty, "LeakNoReader": leak}


def small_space(quick):
    """the bounded input space that TLC enumerates and that is replayed completely on the real buffer"""
    asts = [NONE,
            {"k": "and", "l": {"k": "neterr"}, "r": {"k": "attempts", "op": "<=", "c": 2}},
            {"k": "or", "l": {"k": "code", "op": ">=", "c": 500}, "r": {"k": "method", "op": "==", "m": "POST"}}]
    cfgs = [{"memReq": 4, "maxReq": mx, "memResp": 4, "maxResp": mr, "ast": a}
            for mx in (-1, 0, 3, 4, 8) for mr in (-1, 6) for a in asts]
    reqs = [{"method": m, "framing": f, "size": s} for m in ("GET", "POST", "HEAD") for f in ("declared", "chunked")
            for s in ((0, 1, 3, 4, 5, 8, 9) if not quick else (0, 3, 4, 5, 9))]
    scr = [{"status": st, "writes": w, "cl0": c} for st in (0, 200, 204, 502) for w in ([], [2], [3, 2], [5, 5], [2, 0], [0], [7, 5]) for c in (False, True)]
    sets = [[a] for a in scr] + [[a, b] for a in scr if a["status"] == 502 and not a["cl0"] for b in scr]
    return cfgs, reqs, sets


def exchanges_for(cfgs, reqs, sets, rng, limit=None):
    """scenarios: one per configuration, each exchanging every (request, scripts) pair (sampled when limit is given)"""
    out = []
    pairs = [(r, s) for r in reqs for s in sets]
    for i, c in enumerate(cfgs):
        ps = pairs if limit is None or len(pairs) <= limit else rng.sample(pairs, limit)
        steps = []
        for r, ss in ps:
            steps.append({"method": r["method"], "framing": r["framing"], "size": r["size"], "hdrs": ["X-A", "X-B2"],
                          "scripts": [dict(s, read=rng.choice(["none", "half", "all"]), mut=rng.choice(["none", "hdr", "url"])) for s in ss]})
        cfg = dict(c)
        if c.get("ast", NONE)["k"] != "none":
            cfg["expr"] = render(c["ast"], full=rng.random() < 0.5)
        else:
            cfg.pop("ast", None)
        out.append({"id": "enum-%d" % i, "cfg": cfg, "steps": steps})
    return out


def classify(clause, sc, report, evs):
    return clause


def execute(ctx, scs, tag, prefixes):
    tp = vlib.run_scenarios(ctx, "buffer", scs, tag)
    res = vlib.validate_trace(ctx, "Trace_Buffer", tp, tag)
    trs = vlib.scenario_traces(tp)
    by_id = {s["id"]: s for s in scs}
    # a report points at one exchange of a scenario: keep only that exchange in the replay file
    for b in res.get("bad", []):
        if not any(b["clause"].startswith(p) for p in prefixes):
            continue
        sc = by_id[b["scn"]]
        evs = trs[b["scn"]]
        first = next(i for i, e in enumerate(open(tp)) if vlib.json.loads(e).get("scn") == b["scn"]) if False else None
        ctx_line = b["line"]
        # position of the event inside its scenario
        idx = locate(tp, b["scn"], ctx_line)
        one = {"id": sc["id"] + "-x%d" % idx, "cfg": sc["cfg"], "steps": [sc["steps"][idx]]} if idx is not None else sc
        vlib.add_violation(ctx, b["clause"], classify_ex(b["clause"], one, evs[idx + 1] if idx is not None else None), one, "buffer",
                           detail="scenario=%s exchange=%s" % (b["scn"], idx))
    for d in res.get("drift", []):
        ctx.drift.append(d)
    ctx.traces += len(scs)
    for s in scs:
        for st in s["steps"]:
            if len(st.get("scripts", [])) > 1 or st["size"] > 0:
                ctx.distinct.add(vlib.json.dumps([s["cfg"], st], sort_keys=True))
    if not ctx.samples:
        s = scs[0]
        ctx.samples.append({"scenario": {"id": s["id"], "cfg": s["cfg"], "steps": s["steps"][:3]}, "recorded_events": trs[s["id"]][:4]})
    ctx.extra["exchanges"] = ctx.extra.get("exchanges", 0) + sum(len(s["steps"]) for s in scs)
    return res


_index = {}


def locate(tp, scn, line):
    """index of the exchange (0-based) of scenario scn that is at trace line `line` (1-based, validated file has no blank lines)"""
    if tp not in _index:
        starts = {}
        with open(tp) as f:
            for i, l in enumerate(f, 1):
                if '"e":"Reset"' in l:
                    starts[vlib.json.loads(l)["scn"]] = i
        _index[tp] = starts
    st = _index[tp].get(scn)
    return None if st is None else line - st - 1


def classify_ex(clause, one, ev):
    """signature = clause + abstract class of the exchange (what kind of response the final attempt produced)"""
    if not ev:
        return clause
    scr = ev.get("scripts", [])
    inv = ev.get("inv", 0)
    fin = scr[min(max(inv, 1), len(scr)) - 1] if scr else {}
    cls = []
    if fin.get("status") == 0:
        cls.append("implicit-status")
    if not fin.get("writes"):
        cls.append("no-write")
    if ev["req"]["method"] == "HEAD" or fin.get("status") in (204, 304) or fin.get("cl0") or fin.get("grpc"):
        cls.append("bodyless-kind")
    return clause + ("/" + "+".join(cls) if cls else "")


def replay_one(ctx, path, prefixes):
    rec = vlib.json.load(open(path))
    sc = rec["scenario"]
    tp = vlib.run_scenarios(ctx, "buffer", [sc], "replay")
    res = vlib.validate_trace(ctx, "Trace_Buffer", tp, "replay")
    bad = [b for b in res["bad"] if any(b["clause"].startswith(p) for p in prefixes)]
    for ev in vlib.scenario_traces(tp).get(sc["id"], [])[:20]:
        print(vlib.json.dumps(ev))
    for b in bad[:10]:
        print("REPORT line=%s clause=%s" % (b["line"], b["clause"]))
    if bad or ctx.hangs:
        print("VIOLATION property=%s replay=%s" % (ctx.pid, path))
        return 1
    print("replay: no contract report")
    return 0
