"""C05 - a tripped circuit breaker shields the backend."""
import random

import vlib
import breakercommon as B

INV = ["NoC05", "ModelAgrees"]
PFX = ["C05."]


def scenarios(ctx):
    rng = random.Random(ctx.seed * 3571 + 5)
    quick = ctx.quick()
    out = B.tlc_scenarios(ctx, "tlc", 150 if quick else 1500, 28, ctx.seed)
    for i in range(40 if quick else 400):
        tick = rng.choice([100, 100, 500, 1000])
        cfg = {"tick_ms": tick, "fallback": rng.choice([0, 1, 1, 2, 3, 5, 10, 20, 40]), "recovery": rng.randint(1, 40), "check": rng.choice([0, 1, 1, 2, 5]),
               "ast": B.NETERR, "expr": B.render(B.NETERR), "fbkind": rng.choice(["default", "default", "response", "redirect", "redirect_preserve"])}
        out.append({"id": "rnd-%d" % i, "cfg": cfg, "steps": B.history(rng, 300 if quick else 900, tick, codes_ok=(200,), codes_bad=(502, 504))})
    # directed family: the request whose completion trips the breaker was in flight for L ticks; afterwards one arrival
    # per tick across the whole fallback window and beyond (a window measured from the wrong instant lets one through)
    i = 0
    for L in range(0, 7):
        for F in (2, 3, 5, 8):
            for R in (1, 2):
                for tick in (100, 1000):
                    steps = [{"op": "start", "r": 1}]
                    if rng.random() < 0.5:
                        steps += [{"op": "start", "r": 2}]
                    if L:
                        steps.append({"op": "adv", "d": L})
                    steps.append({"op": "finish", "r": 1, "code": 502})
                    steps.append({"op": "finish", "r": 2, "code": 502})
                    rid = 10
                    for _ in range(F + R + 3):
                        steps.append({"op": "adv", "d": 1})
                        rid += 1
                        steps += [{"op": "start", "r": rid}, {"op": "finish", "r": rid, "code": 200}]
                        if rng.random() < 0.3:
                            steps[-2]["precancel"] = True     # abandoned by its client before it arrived: shielded all the same
                    cfg = {"tick_ms": tick, "fallback": F, "recovery": R, "check": 1, "ast": B.NETERR, "expr": B.render(B.NETERR)}
                    out.append({"id": "window-%d" % i, "cfg": cfg, "steps": steps})
                    i += 1
    # configurations at the edge of what can be expressed: a fallback that never ends by itself (math.MaxInt64 ns; the trace
    # carries it as 10^9 ticks), arrivals hours and days after the trip
    for j in range(4 if quick else 20):
        tick = rng.choice([1000, 100])
        steps = [{"op": "start", "r": 1}, {"op": "adv", "d": rng.randint(0, 3)}, {"op": "finish", "r": 1, "code": 502}]
        rid = 10
        for d in [1, 1, 5, 60, 3600, 86400, 86400 * 30]:
            steps.append({"op": "adv", "d": d})
            for _ in range(rng.randint(1, 4)):
                rid += 1
                steps += [{"op": "start", "r": rid}, {"op": "finish", "r": rid, "code": 200}]
        cfg = {"tick_ms": tick, "fallback": 1000000000, "fallback_forever": True, "recovery": rng.randint(1, 10), "check": 1,
               "ast": B.NETERR, "expr": B.render(B.NETERR)}
        out.append({"id": "forever-%d" % j, "cfg": cfg, "steps": steps})
    return out


def run(ctx, replay):
    quick = ctx.quick()
    if replay:
        return B.replay_one(ctx, replay, PFX)
    vlib.mc(ctx, "MC_Breaker", vlib.make_cfg(constants=B.mc_consts(6 if quick else 7, 10 if quick else 11, [2] if quick else [2, 3], [1, 2]),
                                             invariants=INV), "breaker-shield", timeout=1500)
    vlib.mc(ctx, "MC_Breaker", vlib.make_cfg(constants=B.mc_consts(5, 9, [2], [1], shieldbug=True), invariants=INV),
            "breaker-mutant-boundary", expect="NoC05")
    scs = scenarios(ctx)
    B.execute(ctx, scs, "c05", PFX)
    B.stress(ctx, PFX)
    return vlib.finish(ctx, "model_checking",
                       "scenario = interleaving of request starts / completions (codes) / clock advances with overlapping in-flight "
                       "requests; every arrival is judged against the observed trip instant; non-trivial = the breaker changed state",
                       B.ASSUMPTIONS)
