"""C04 - concurrent requests per source never exceed the connection limit."""
import random

import vlib
from vlib import Raw

ASSUMPTIONS = [
    "TLC 1.8 and the CommunityModules JSON reader are trusted",
    "the gate handler of the harness reports entry before blocking, so 'admitted' is observed, not inferred",
    "hook events cl.acquire/cl.reject/cl.release are emitted inside ConnLimiter.mutex",
    "a panicking handler is modelled by a Go panic recovered by the harness around ServeHTTP",
]


def consts(nsrc, nreq, maxlimit, cmpgt=False, rel=True, depth=None):
    c = {"Sources": Raw("{" + ", ".join('"s%d"' % i for i in range(1, nsrc + 1)) + "}"),
         "Reqs": Raw("{" + ", ".join(str(i) for i in range(1, nreq + 1)) + "}"), "MaxLimit": maxlimit, "CmpGt": cmpgt, "ReleaseOnPanic": rel}
    if depth is not None:
        c["Depth"] = depth
    return c


INV = ["NeverExceeds", "DecisionExact", "ModelAgrees", "QuiescentFree"]


def to_scenarios(behs, prefix, extract="header"):
    out = []
    for i, b in enumerate(behs):
        steps = [dict(s) for s in b["steps"]]
        running = {}
        srcs = set()
        for s in steps:
            if s["op"] == "start":
                running[s["r"]] = s["src"]
                srcs.add(s["src"])
        # end whatever is still running, then the fill probe: max admitted, one more refused, per source
        for s in b["steps"]:
            if s["op"] == "finish":
                running.pop(s["r"], None)
        for r in sorted(running):
            steps.append({"op": "finish", "r": r, "how": "return"})
        steps.append({"op": "quiesce"})
        n = 1000
        for src in sorted(srcs):
            ids = []
            for _ in range(b["max"] + 1):
                n += 1
                ids.append(n)
                steps.append({"op": "start", "r": n, "src": src})
            for r in ids:
                steps.append({"op": "finish", "r": r, "how": "return"})
        steps.append({"op": "quiesce"})
        out.append({"id": "%s-%d" % (prefix, i), "cfg": {"max": b["max"], "extract": extract[i % len(extract)] if isinstance(extract, list) else extract},
                    "steps": steps})
    return out


def seeded(ctx, n, length):
    rng = random.Random(ctx.seed * 31337 + 4)
    out = []
    for i in range(n):
        mx = rng.choice([0, 1, 1, 2, 3, 4, 5, 50])
        nsrc = rng.randint(1, 6)
        steps, running, rid = [], [], 0
        for _ in range(length):
            if running and rng.random() < 0.45:
                r = running.pop(rng.randrange(len(running)))
                steps.append({"op": "finish", "r": r, "how": rng.choice(["return", "return", "panic"])})
            else:
                rid += 1
                st = {"op": "start", "r": rid, "src": "s%d" % rng.randint(1, nsrc)}
                if rng.random() < 0.08:
                    st["precancel"] = True      # the request's context is already cancelled when it arrives
                steps.append(st)
                running.append(rid)   # rejected ones are ignored by the driver at finish
        out.append({"max": mx, "steps": steps})
    return to_scenarios(out, "rnd", extract=["header", "ip", "token", "host"])


def classify(clause, sc, report, evs):
    return clause


def run(ctx, replay):
    quick = ctx.quick()
    if replay:
        rec = vlib.json.load(open(replay))
        tp = vlib.run_scenarios(ctx, "conn", [rec["scenario"]], "replay")
        res = vlib.validate_trace(ctx, "Trace_Conn", tp, "replay")
        bad = [b for b in res["bad"] if b["clause"].startswith("C04.")]
        for ev in vlib.scenario_traces(tp).get(rec["scenario"]["id"], []):
            print(vlib.json.dumps(ev))
        for b in bad:
            print("REPORT line=%s clause=%s" % (b["line"], b["clause"]))
        if bad or ctx.hangs:
            print("VIOLATION property=C04 replay=%s" % replay)
            return 1
        print("replay: no contract report")
        return 0
    vlib.mc(ctx, "ConnLimit", vlib.make_cfg(constants=consts(2, 6 if quick else 7, 3), invariants=INV, constraint="Ordered"), "conn-2src")
    vlib.mc(ctx, "ConnLimit", vlib.make_cfg(constants=consts(3, 5 if quick else 6, 2), invariants=INV, constraint="Ordered"), "conn-3src")
    vlib.mc(ctx, "ConnLimit", vlib.make_cfg(constants=consts(2, 4, 2, cmpgt=True), invariants=INV, constraint="Ordered"),
            "conn-mutant-gt", expect=["NeverExceeds", "DecisionExact"])
    vlib.mc(ctx, "ConnLimit", vlib.make_cfg(constants=consts(2, 4, 2, rel=False), invariants=INV, constraint="Ordered"),
            "conn-mutant-norelease", expect=["ModelAgrees", "QuiescentFree", "DecisionExact"])
    # unbounded histories: IndInv (counter = number of requests inside the handler <= limit) is inductive (Apalache)
    vlib.apalache(ctx, "ConnLimitInd", "ind-base", "CInit", "Init", "IndInv", 0)
    vlib.apalache(ctx, "ConnLimitInd", "ind-step", "CInit", "IndInit", "IndInv", 1)
    vlib.apalache(ctx, "ConnLimitInd", "ind-implies", "CInit", "IndInit", "NeverExceeds", 0)
    vlib.apalache(ctx, "ConnLimitInd", "ind-step-mutant", "CInitMutant", "IndInit", "IndInv", 1, expect_ok=False)
    # spec -> code: every interleaving of the small model, exhaustively (hist is part of the state, so every path is a state)
    behs = vlib.gen_tlc(ctx, "Gen_Conn", vlib.make_cfg(spec="GSpec", constants=consts(2, 3 if quick else 4, 2, depth=6 if quick else 8),
                                                       invariants=["Emit"]), "gen-conn-exh", workers=4)
    scs = to_scenarios(behs, "tlc")
    behs2 = vlib.gen_tlc(ctx, "Gen_Conn", vlib.make_cfg(spec="GSpec", constants=consts(3, 7, 3, depth=14), invariants=["Emit"]),
                         "gen-conn-sim", num=150 if quick else 2000, depth=15, seed=ctx.seed)
    scs += to_scenarios(behs2, "sim")
    scs += seeded(ctx, 40 if quick else 400, 60 if quick else 300)
    tp = vlib.run_scenarios(ctx, "conn", scs, "c04")
    res = vlib.validate_trace(ctx, "Trace_Conn", tp, "c04")
    vlib.collect(ctx, res, {s["id"]: s for s in scs}, "conn", classify, ["C04."])
    ctx.traces += len(scs)
    for s in scs:
        ops = tuple((st["op"], st.get("src", ""), st.get("how", "")) for st in s["steps"])
        if any(o[2] == "panic" for o in ops) or len({o[1] for o in ops if o[1]}) > 1:
            ctx.distinct.add((s["cfg"]["max"], ops))
    trs = vlib.scenario_traces(tp)
    ctx.samples.append({"scenario": scs[0], "recorded_events": trs[scs[0]["id"]][:10]})
    # concurrent goroutines, hook order
    tpc = vlib.os.path.join(ctx.work, "trace-conn-stress.ndjson")
    cfg = {"rounds": 3 if quick else 12, "goroutines": 12, "requests": 150 if quick else 500}
    p = vlib.run_harness(ctx, ["stress", "conn", "-trace", tpc, "-seed", str(ctx.seed), "-cfg", vlib.json.dumps(cfg)], allow_fail=True)
    if p.returncode == 3:
        ctx.hangs.append({"id": "stress", "cfg": cfg, "steps": [], "component": "conn-stress"})
    elif p.returncode != 0:
        raise vlib.InfraError("stress failed: " + p.stderr[-2000:])
    else:
        res = vlib.validate_trace(ctx, "Trace_Conn", tpc, "c04-stress")
        trs = vlib.scenario_traces(tpc)
        vlib.collect(ctx, res, {k: {"id": k, "cfg": cfg, "steps": [], "recorded": v[:300]} for k, v in trs.items()},
                     "conn-stress", classify, ["C04."])
        ctx.traces += len(trs)
        ctx.scenarios += len(trs)
    return vlib.finish(ctx, "model_checking",
                       "scenario = interleaving of request starts and finishes (return/panic) over several sources followed by a "
                       "fill probe; distinct = distinct (limit, op sequence); non-trivial = more than one source or a panic",
                       ASSUMPTIONS)
