"""C17 - rolling-window counters count the recent window, no more and no less."""
import random

import vlib
from vlib import Raw


def consts(ns, rs, offs, incs, advances, maxops, horizon, asis=False, depth=None):
    st = lambda xs: Raw("{" + ", ".join(map(str, xs)) + "}")
    c = {"Ns": st(ns), "Rs": st(rs), "Tps": 2, "Offs": st(offs), "U0": 0, "AsIs": asis, "Incs": st(incs),
         "Advances": st(advances), "MaxOps": maxops, "Horizon": horizon}
    if depth is not None:
        c["Depth"] = depth
    return c


def classify(clause, sc, report, evs):
    return "%s/res=%sms" % (clause, sc["cfg"]["r"] * sc["cfg"].get("tick_ms", 500)) if False else clause


def scenarios(ctx):
    rng = random.Random(ctx.seed * 2971 + 17)
    quick = ctx.quick()
    out = []
    behs = vlib.gen_tlc(ctx, "Gen_Counter", vlib.make_cfg(spec="GSpec", constants=consts([1, 2, 3, 4], [2, 3, 4], [0], [1, 2],
                        [1, 2, 3, 4, 7, 9, 30], 20, 10 ** 6, depth=20), invariants=["Emit"]), "gen-counter",
                        num=100 if quick else 1500, depth=21, seed=ctx.seed)
    for i, b in enumerate(behs):
        out.append({"id": "tlc-%d" % i, "cfg": {"n": b["n"], "r": b["r"], "tick_ms": 500, "kind": "counter"}, "steps": b["steps"]})
    # seeded long histories: N up to 60, resolutions 1 s, 1.5 s, 2 s, 7 s, 10 s, 1 min (tick 500 ms)
    for i in range(60 if quick else 600):
        n = rng.choice([1, 2, 3, 5, 10, 10, 24, 60, 120])
        r = rng.choice([2, 2, 3, 4, 14, 20, 120])
        steps = []
        for _ in range(150 if quick else 500):
            x = rng.random()
            if x < 0.35:
                steps.append({"op": "inc", "v": rng.choice([1, 1, 2, 5]), "which": rng.choice("ab")})
            elif x < 0.6:
                steps.append({"op": "count"})
            elif x < 0.62:
                steps.append({"op": "reset"})
            elif x < 0.66:
                steps.append({"op": "clone"})       # (plain counters) a snapshot that is then used side by side with the original
            else:
                steps.append({"op": "adv", "d": rng.choice([1, 1, 2, r - 1 if r > 1 else 1, r, r + 1, n * r - 1, n * r, n * r + 1, 3 * n * r])})
        out.append({"id": "rnd-%d" % i, "cfg": {"n": n, "r": r, "tick_ms": 500, "kind": rng.choice(["ratio", "counter"])}, "steps": steps})
    # phase sweep: resolutions whose step grid is not aligned with the second / the epoch (7 s, 11 s, 13 s, 3.5 s, 1.1 s ...),
    # an increment at every phase of a step followed by reads after every gap up to two windows
    grid = [(500, 14), (500, 22), (500, 26), (500, 7), (500, 9), (100, 11), (100, 17), (500, 3), (1000, 7)]
    k = 0
    for tick, r in grid:
        for n in (1, 2, 3):
            phases = range(r) if not quick else rng.sample(range(r), min(r, 4))
            for ph in phases:
                steps = []
                if ph:
                    steps.append({"op": "adv", "d": ph})
                t = 0
                for _ in range(6 if quick else 14):
                    steps.append({"op": "inc", "v": rng.choice([1, 2]), "which": "a"})
                    g = rng.randint(1, (n + 1) * r)
                    steps.append({"op": "adv", "d": g})
                    steps.append({"op": "count"})
                    g2 = rng.randint(1, r)
                    steps.append({"op": "adv", "d": g2})
                out.append({"id": "phase-%d" % k, "cfg": {"n": n, "r": r, "tick_ms": tick, "kind": "counter"}, "steps": steps})
                k += 1
    # resolutions that are not a whole number of microseconds (tick = 100 ns): increments a few hundred nanoseconds after and
    # before a step boundary (origin 2012-03-04T00:00:00Z is 63466416000 s after Go's zero time, which Truncate counts from)
    tick_ns = 100
    for ri, res_ns in enumerate([1000000500, 1000000100, 1500000300]):
        r = res_ns // tick_ns
        off_ns = (63466416000 * 10 ** 9) % res_ns
        first = (res_ns - off_ns) // tick_ns          # ticks from the origin to the first step boundary
        for n in (1, 2, 5):
            for kb in range(0, 4):                     # the first boundaries (their sub-microsecond part differs)
                for delta in (-2, -1, 0, 1, 2, 4, 9):
                    t = first + kb * r + delta
                    if t <= 0:
                        continue
                    steps = [{"op": "adv", "d": t}, {"op": "inc", "v": 3, "which": "a"}, {"op": "count"},
                             {"op": "adv", "d": 7}, {"op": "inc", "v": 4, "which": "a"}, {"op": "count"},
                             {"op": "adv", "d": r // 2}, {"op": "count"}]
                    out.append({"id": "ns-%d-%d-%d-%d" % (ri, n, kb, delta), "cfg": {"n": n, "r": r, "tick_ns": tick_ns, "kind": rng.choice(["counter", "ratio"])},
                                "steps": steps})
    return out


def run(ctx, replay):
    quick = ctx.quick()
    if replay:
        rec = vlib.json.load(open(replay))
        sc = rec["scenario"]
        tp = vlib.run_scenarios(ctx, "counter", [sc], "replay")
        res = vlib.validate_trace(ctx, "Trace_Counter", tp, "replay")
        bad = [b for b in res["bad"] if b["clause"].startswith("C17.")]
        evs = vlib.scenario_traces(tp).get(sc["id"], [])
        for b in bad[:10]:
            print("REPORT line=%s clause=%s event=%s" % (b["line"], b["clause"], vlib.json.dumps(evs[b["line"] - 1])))
        if bad:
            print("VIOLATION property=C17 replay=%s" % replay)
            return 1
        print("replay: no contract report")
        return 0
    vlib.mc(ctx, "MC_Counter", vlib.make_cfg(constants=consts([1, 2, 3], [2, 3, 4], [0, 1], [1, 2], [1, 2, 3, 7],
                                                              4 if quick else 5, 16 if quick else 18), invariants=["WindowBand"]),
            "counter-band", timeout=1500)
    vlib.mc(ctx, "MC_Counter", vlib.make_cfg(constants=consts([1, 2, 3], [2, 3, 4], [0, 1], [1], [1, 2, 3, 7], 4, 14, asis=True),
                                             invariants=["WindowBand"]), "counter-asis-unix-seconds", expect="WindowBand")
    scs = scenarios(ctx)
    tp = vlib.run_scenarios(ctx, "counter", scs, "c17")
    res = vlib.validate_trace(ctx, "Trace_Counter", tp, "c17")
    trs = vlib.scenario_traces(tp)
    vlib.collect(ctx, res, {s["id"]: s for s in scs}, "counter", classify, ["C17."], trs)
    ctx.traces += len(scs)
    for s in scs:
        ops = {st["op"] for st in s["steps"]}
        if {"inc", "count", "adv"} <= ops:
            ctx.distinct.add(vlib.json.dumps([s["cfg"], s["steps"]], sort_keys=True))
    ctx.samples.append({"scenario": {"id": scs[0]["id"], "cfg": scs[0]["cfg"], "steps": scs[0]["steps"][:12]},
                        "recorded_events": trs[scs[0]["id"]][:8]})
    return vlib.finish(ctx, "model_checking",
                       "scenario = sequence of increments, reads, resets and clock advances for a (buckets, resolution) pair; the "
                       "band (N-1)r..Nr over the ghost increment log is evaluated at every read; non-trivial = contains inc, read, advance",
                       ["TLC and the JSON reader are trusted", "clock frozen at a multiple of one day; the harness reports the origin's "
                        "offset inside a resolution step", "RatioCounter.Ratio is compared with CountA/(CountA+CountB) by the harness"])
