"""C16 - the forwarder relays responses faithfully and maps failures to gateway errors."""
import random

import vlib
from vlib import Raw
import fwdcommon as F

PFX = ["C16."]
MODES = ["refused", "close_before_head", "reset_before_head", "header_timeout", "client_cancel", "abort_body", "precancel"]


def scenarios(ctx):
    rng = random.Random(ctx.seed * 4793 + 16)
    quick = ctx.quick()
    out = []
    for i in range(4 if quick else 80):
        steps = []
        for _ in range(24):
            st = F.random_request(rng, allow_fwd_in_conn=False)
            st["target"] = "/r/%d" % rng.randint(0, 999)
            if rng.random() < 0.5:
                st["mode"] = rng.choice(MODES)
                st["resp"]["size"] = rng.choice([10, 5000, 100000])
                if st["mode"] == "abort_body":
                    st["resp"]["chunked"] = rng.random() < 0.5
                    st["rst"] = rng.random() < 0.5
            steps.append(st)
        out.append({"id": "flt-%d" % i, "cfg": {}, "steps": steps})
    # every failure mode at least once with plain requests
    steps = []
    for m in MODES + ["ok"]:
        for tls in (False, True):
            for chunked in ((False, True) if m == "abort_body" else (None,)):
                resp = F.random_response(rng)
                st = {"target": "/m", "method": "GET", "e2e": ["X-App"], "hop": [], "conn": [], "upstream": [], "tls": tls,
                      "hostport": False, "passhost": False, "peer": "v4", "mode": m, "resp": resp}
                if chunked is not None:
                    resp["chunked"], resp["size"] = chunked, 2000
                    for rst in (False, True):
                        steps.append(dict(st, rst=rst))
                else:
                    steps.append(st)
    out.append({"id": "modes", "cfg": {}, "steps": steps})
    # protocol switches: every spelling of the Connection header that asks (or does not ask) for the upgrade, a backend that
    # switches or declines
    steps = []
    spellings = [["Upgrade"], ["upgrade"], ["UPGRADE"], ["keep-alive, Upgrade"], ["Upgrade, keep-alive"], [" Upgrade "],
                 ["keep-alive", "Upgrade"], ["Upgrade", "keep-alive"], ["keep-alive,upgrade"], ["X-End2, Upgrade, keep-alive"],
                 ["keep-alive"], []]
    for connhdr in spellings:
        for backend in ("101", "200"):
            steps.append({"mode": "upgrade", "connhdr": connhdr, "backend": backend, "proto": rng.choice(["demo", "websocket"]),
                          "passhost": rng.random() < 0.5})
    out.append({"id": "upgrade", "cfg": {}, "steps": steps})
    return out


def run(ctx, replay):
    if replay:
        return F.replay_one(ctx, replay, PFX)
    c = {"E2E": Raw('{"X-App"}'), "ConnFirst": True, "Deferred": True}
    vlib.mc(ctx, "MC_Forwarder", vlib.make_cfg(constants=c, invariants=["EventsPaired"]), "fwd-fault-machine")
    c2 = dict(c, Deferred=False)
    vlib.mc(ctx, "MC_Forwarder", vlib.make_cfg(constants=c2, invariants=["EventsPaired"]), "fwd-asis-straight-line-listener",
            expect="EventsPaired")
    scs = scenarios(ctx)
    F.execute(ctx, scs, "c16", PFX)
    # one forwarder, overlapping exchanges, a client that stalls in the middle of a large response
    tp = vlib.os.path.join(ctx.work, "trace-fwdconc.ndjson")
    cfg = {"rounds": 4 if ctx.quick() else 25}
    p = vlib.run_harness(ctx, ["stress", "fwd", "-trace", tp, "-seed", str(ctx.seed), "-cfg", vlib.json.dumps(cfg), "-hang", "60"],
                         allow_fail=True, timeout=900)
    if p.returncode == 3:
        ctx.hangs.append({"id": "stress-fwd", "cfg": cfg, "steps": [], "component": "fwd-stress"})
    elif p.returncode != 0:
        raise vlib.InfraError("forwarder stress failed: " + p.stderr[-2000:])
    else:
        res = vlib.validate_trace(ctx, "Trace_Conc", tp, "fwdconc")
        for b in res["bad"]:
            if b["clause"].startswith("C16."):
                vlib.add_violation(ctx, b["clause"], b["clause"] + "/overlapping", {"id": "stress-fwd", "cfg": cfg, "steps": []}, "fwd-stress",
                                   detail="driver=fwd (overlapping exchanges through one forwarder)")
    return vlib.finish(ctx, "model_checking",
                       "exchange = backend response (status, header sets, body size, chunking) or failure mode (refused, close / reset "
                       "before the head, header timeout, client cancellation, reset during the body) through a real proxy with a "
                       "StateListener; client-side status/headers/body, recorded status and listener events are compared",
                       F.ASSUMPTIONS)
