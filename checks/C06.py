"""C06 - buffer hands the handler the exact request, identically on every attempt."""
import random

import vlib
import bufcommon as BC

PFX = ["C06."]


def seeded(ctx, n, big):
    rng = random.Random(ctx.seed * 3331 + 6)
    out = []
    for i in range(n):
        mem = rng.choice([0, 1, 2, 7, 64, 4096, 65536])
        memv = mem if mem else 1048576
        ast = {"k": "and", "l": {"k": "code", "op": ">=", "c": 500}, "r": {"k": "attempts", "op": "<", "c": rng.randint(2, 5)}}
        cfg = {"memReq": mem, "maxReq": -1, "memResp": 64, "maxResp": -1, "ast": ast, "expr": BC.render(ast),
               "via": "server" if rng.random() < 0.15 else "direct"}
        steps = []
        for _ in range(10):
            if big and rng.random() < 0.1:
                size = rng.choice([1048575, 1048576, 1048577, 3 * 1048576 + 17])
            else:
                size = max(0, rng.choice([0, 1, memv - 1, memv, memv + 1, 2 * memv, memv + rng.randint(2, 300)]))
                if size > 3 * 1048576:
                    size = 1048577
            nat = rng.randint(1, 5)
            scripts = [{"status": 502 if k < nat - 1 else 200, "writes": [3], "read": rng.choice(["none", "half", "all", "copy", "copyhalf"]), "via": rng.choice(["write", "write", "copy"]),
                        "mut": rng.choice(["none", "hdr", "url", "hdrslice", "urlfields"])} for k in range(nat)]
            steps.append({"method": rng.choice(["POST", "PUT", "GET"]), "framing": rng.choice(["declared", "chunked", "unknown"]), "size": size,
                          "hdrs": rng.sample(["X-A", "X-B2", "Content-Type", "X-C", "Accept"], rng.randint(0, 4)), "scripts": scripts})
        out.append({"id": "rnd-%d" % i, "cfg": cfg, "steps": steps})
    # the built-in budget of 10 retries is what ends the retrying: expressions without (or with a large) attempt bound
    for i in range(6 if not big else 30):
        mem = rng.choice([1, 16, 4096])
        ast = rng.choice([{"k": "code", "op": "==", "c": 503}, {"k": "code", "op": ">=", "c": 500},
                          {"k": "and", "l": {"k": "code", "op": "==", "c": 503}, "r": {"k": "attempts", "op": "<", "c": rng.choice([11, 12, 50])}}])
        cfg = {"memReq": mem, "maxReq": -1, "memResp": 64, "maxResp": -1, "ast": ast, "expr": BC.render(ast)}
        steps = []
        for _ in range(4):
            scripts = [{"status": 503, "writes": [2], "read": rng.choice(["half", "all", "all", "none", "copy", "copy", "copyhalf"]), "via": rng.choice(["write", "write", "copy"]), "mut": rng.choice(["none", "hdr", "url", "hdrslice", "urlfields"])}
                       for _k in range(12)]
            steps.append({"method": "POST", "framing": rng.choice(["declared", "chunked", "unknown"]), "size": rng.choice([1, mem, mem + 7, 1024]),
                          "hdrs": ["X-A", "X-B2"], "scripts": scripts})
        out.append({"id": "budget-%d" % i, "cfg": cfg, "steps": steps})
    return out


def run(ctx, replay):
    quick = ctx.quick()
    if replay:
        return BC.replay_one(ctx, replay, PFX)
    rng = random.Random(ctx.seed + 6)
    cfgs, reqs, sets = BC.small_space(quick)
    # the request side of the bounded space: attempts that fail (502) and are retried, reading none/half/all of the body
    vlib.mc(ctx, "MC_Buffer", vlib.make_cfg(constants=BC.mc_constants(cfgs, reqs, sets),
                                            invariants=["RequestLimit", "InvocationCount"]), "buffer-attempts")
    scs = BC.exchanges_for(cfgs, reqs, sets, rng, limit=300 if quick else None)
    scs += seeded(ctx, 60 if quick else 500, big=not quick)
    BC.execute(ctx, scs, "c06", PFX)
    return vlib.finish(ctx, "model_checking",
                       "exchange = request (method, framing, size around the memory threshold up to multi-megabyte, header set) x "
                       "attempts that read none/half/all of the body and mutate headers or URL before failing; every invocation's "
                       "view is compared with the client's request; non-trivial = body or >1 attempt", BC.ASSUMPTIONS)
