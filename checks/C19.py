"""C19 - built-in source extractors identify the request source exactly."""
import random

import vlib


def rand_v4(rng):
    return "%d.%d.%d.%d" % (rng.randint(1, 223), rng.randint(0, 255), rng.randint(0, 255), rng.randint(1, 254))


def rand_v6(rng):
    style = rng.choice(["full", "compressed", "loopback", "linklocal", "mapped"])
    g = lambda: "%x" % rng.randint(0, 0xffff)
    if style == "full":
        return ":".join(g() for _ in range(8))
    if style == "compressed":
        return "2001:db8::%s:%s" % (g(), g())
    if style == "loopback":
        return "::1"
    if style == "linklocal":
        return "fe80::%s:%s:%s:%s" % (g(), g(), g(), g())
    return "::ffff:" + rand_v4(rng)


def scenarios(ctx):
    rng = random.Random(ctx.seed * 1301 + 19)
    quick = ctx.quick()
    out = []
    steps = []
    for v, ok in [("client.ip", True), ("request.host", True), ("request.header.X-Api-Key", True), ("request.header.", False),
                  ("request.header", False), ("client.port", False), ("", False), ("request.hosts", False), ("Client.IP", False),
                  ("request.header.a", True), ("request.body", False)]:
        steps.append({"op": "new", "variable": v, "supported": ok})
    out.append({"id": "variables", "cfg": {}, "steps": steps})
    for i in range(6 if quick else 400):
        steps = []
        pool = [("v4", rand_v4(rng), "") for _ in range(6)] + [("v6", rand_v6(rng), "") for _ in range(6)]
        pool += [("v6zone", "fe80::%x:%x" % (rng.randint(1, 0xffff), rng.randint(1, 0xffff)), rng.choice(["eth0", "en1", "3", "vEthernet (x)"])) for _ in range(4)]
        # the same link-local address reached over two interfaces: two different peers
        ll = "fe80::%x" % rng.randint(1, 0xffff)
        pool += [("v6zone", ll, "eth0"), ("v6zone", ll, "eth1")]
        for _ in range(120):
            fam, ip, zone = rng.choice(pool)
            st = {"op": "extract", "variable": "client.ip", "kind": "ip", "ip": ip, "zone": zone, "port": str(rng.randint(1, 65535))}
            if rng.random() < 0.4:   # headers in which a client (or a proxy in front) CLAIMS an address: not the peer's address
                other = rng.choice(pool)[1]
                st["extra"] = {h: rng.choice([other, other, ip, "unknown", other + ", 10.0.0.1"])
                               for h in rng.sample(["X-Real-Ip", "X-Forwarded-For", "True-Client-Ip", "X-Client-Ip", "Forwarded",
                                                    "X-Forwarded-Host", "Cf-Connecting-Ip"], rng.randint(1, 3))}
            steps.append(st)
            x = rng.random()
            if x < 0.15:
                steps.append({"op": "extract", "variable": "request.host", "kind": "host",
                              "host": rng.choice(["example.com", "example.com:8443", "[::1]:80", "10.0.0.1", "a.b.c:1", "UPPER.example.com",
                                                   "", "", " ", "localhost", "xn--bcher-kva.example", "a" * 300 + ".example", "h:0", "-", "*"]),
                              "extra": rng.choice([{}, {}, {"X-Forwarded-Host": "claimed.example.com"}, {"Forwarded": "host=claimed.example.com"},
                                                   {"X-Original-Host": "claimed.example.com", "X-Forwarded-Server": "edge-1"}])})
            elif x < 0.3:
                name = rng.choice(["X-Api-Key", "Authorization", "x-lower", "X-Tenant", "Host", "host", "X-Forwarded-For", "Content-Length",
                                   "X-Real-IP", "Cookie", "User-Agent"])
                st = {"op": "extract", "variable": "request.header." + name, "kind": "header", "name": name,
                      "value": rng.choice(["k1", "key with spaces", "a:b:c", "[v6]", "", "ü"])}
                if rng.random() < 0.3:
                    st["absent"] = True      # the request does not carry the header at all: the token is the empty value
                    st["value"] = ""
                steps.append(st)
            elif x < 0.4:
                steps.append({"op": "extract", "variable": "client.ip", "kind": "ip",
                              "raw": rng.choice(["", "nohostport", ":1234", "[::1", "::1", "1.2.3.4", "[]:80", "@", "a:b:c:d"]),
                              "extra": rng.choice([{}, {"X-Real-Ip": "10.9.9.9"}, {"X-Forwarded-For": "10.9.9.9"}])})
            if rng.random() < 0.3:    # the very same request again, back to back (a keep-alive connection): same outcome
                rep = dict(steps[-1])
                for _ in range(rng.randint(1, 2)):
                    steps.append(dict(rep))
        out.append({"id": "rnd-%d" % i, "cfg": {}, "steps": steps})
    return out


def classify(clause, sc, report, evs):
    return clause


def run(ctx, replay):
    if replay:
        rec = vlib.json.load(open(replay))
        scs = [rec["scenario"]]
    else:
        vlib.mc(ctx, "MC_Source", vlib.make_cfg(constants={"FirstColon": False}, invariants=["TokenIffAddress"]), "source-pairs")
        vlib.mc(ctx, "MC_Source", vlib.make_cfg(constants={"FirstColon": True}, invariants=["TokenIffAddress"]),
                "source-asis-first-colon", expect="TokenIffAddress")
        scs = scenarios(ctx)
    tp = vlib.run_scenarios(ctx, "source", scs, "c19")
    res = vlib.validate_trace(ctx, "Trace_Source", tp, "c19")
    trs = vlib.scenario_traces(tp)
    if replay:
        bad = [b for b in res["bad"] if b["clause"].startswith("C19.")]
        for b in bad[:10]:
            print("REPORT line=%s clause=%s event=%s" % (b["line"], b["clause"], vlib.json.dumps(trs[scs[0]["id"]][b["line"] - 1])))
        if bad:
            print("VIOLATION property=C19 replay=%s" % replay)
            return 1
        print("replay: no contract report")
        return 0
    vlib.collect(ctx, res, {s["id"]: s for s in scs}, "source", classify, ["C19."], trs)
    ctx.traces += len(scs)
    for s in scs:
        for st in s["steps"]:
            ctx.distinct.add(vlib.json.dumps({k: v for k, v in st.items() if k != "port"}, sort_keys=True))
    ctx.extra["exchanges"] = sum(len(s["steps"]) for s in scs)
    ctx.samples.append({"scenario": {"id": scs[1]["id"], "steps": scs[1]["steps"][:4]}, "recorded_events": trs[scs[1]["id"]][:5]})
    return vlib.finish(ctx, "model_checking",
                       "a pure function: the model is the pair relation (equal tokens <=> equal addresses) over rendered peers; on the "
                       "real code generated IPv4 / IPv6 / zoned addresses in the host:port forms of net.JoinHostPort, hosts, header "
                       "values and malformed remote addresses; the trace contract keeps the address<->token maps of each scenario",
                       ["TLC and the JSON reader are trusted", "remote addresses are rendered with net.JoinHostPort, the form net/http produces",
                        "this property is input/output fidelity of one function; the specification contributes the pair relation only"])
