"""X02 (extension, not one of the listed properties) - the rebalancer with its default meter: RebalancerE2E.tla composes
Rebalancer.tla with RollingCounter.tla (ratio of 5xx gateway-class answers over a ten-second window, readiness by counted
buckets). The code is driven only through requests answered with scripted statuses; ratings and readiness are DERIVED by the
model, the weights it predicts are compared with the code's after every call, and C10's clauses are evaluated on the derived
ratings."""
import random

import vlib
from vlib import Raw, Def
import rrcommon as R

PFX = ["X02."]
ASSUMPTIONS = ["time is the library's frozen clock (origin on a whole second), advanced in ticks of 1 s or 500 ms",
               "a rating exactly on the outlier threshold (2v = 3(median + MAD) in exact arithmetic) may be decided either way by "
               "float64: such steps are followed, not judged",
               "extension check: not part of MANIFEST.json; a mismatch between RebalancerE2E.tla and the code is reported as "
               "X02.ModelAgrees"]
PROFILES = {"healthy": [200], "flaky": [200, 200, 502], "bad": [502, 504, 500], "mixed": [200, 502], "client": [404, 200, 429],
            "edge": [499, 505, 500, 504]}


def scenarios(ctx):
    rng = random.Random(ctx.seed * 7349 + 2)
    quick = ctx.quick()
    out = []
    for i in range(60 if quick else 600):
        tick = rng.choice([1000, 1000, 500])
        tps = 1000 // tick
        n = rng.randint(2, 4)
        keys = R.KEYS[:n]
        steps = [{"op": "upsert", "k": k, "w": rng.choice([1, 1, 2, 3])} for k in keys]
        members = set(keys)
        nreq = 0
        for _phase in range(rng.randint(3, 8)):
            prof = {k: rng.choice(list(PROFILES)) for k in keys}
            if rng.random() < 0.5:
                bad = rng.choice(keys)
                prof = {k: ("bad" if k == bad else "healthy") for k in keys}
            for _ in range(rng.randint(8, 40)):
                for _ in range(rng.choice([1, 1, 2, 3])):
                    steps.append({"op": "req", "codes": {k: rng.choice(PROFILES[prof[k]]) for k in keys}})
                    nreq += 1
                steps.append({"op": "adv", "d": rng.choice([1, 1, 1, 2, tps, 3 * tps])})
            x = rng.random()
            if x < 0.2:
                steps.append({"op": "adv", "d": rng.choice([11, 25, 60]) * tps})
            elif x < 0.3 and len(members) > 1:
                k = rng.choice(sorted(members))
                steps.append({"op": "remove", "k": k})
                members.discard(k)
            elif x < 0.45:
                k = rng.choice(keys)
                steps.append({"op": "upsert", "k": k, "w": rng.choice([1, 2, 5])})
                members.add(k)
            elif x < 0.5:
                steps.append({"op": "remove", "k": "h"})
            if nreq > (150 if quick else 400):
                break
        out.append({"id": "e2e-%d" % i, "cfg": {"tick_ms": tick, "backoff": rng.choice([2, 5, 10]) * tps, "table": i}, "steps": steps})
    return out


def classify(clause, sc, report, evs):
    return clause


def run(ctx, replay):
    if replay:
        scs = [vlib.json.load(open(replay))["scenario"]]
    else:
        quick = ctx.quick()
        def mcc(pool, mr, hz, codes="{200, 502}"):
            return {"Pool": Def(pool), "N": 2, "Backoff": 2, "Cap": 4096, "Codes": Raw(codes), "Advances": Raw("{1, 3}"),
                    "MaxReq": mr, "Horizon": hz}
        inv = ["Contract", "CountedWithinWindow", "NoAdjustmentBeforeReady"]
        vlib.mc(ctx, "MC_RebalE2E", vlib.make_cfg(constants=mcc('<< <<"a", 1>>, <<"b", 2>> >>', 6 if quick else 7, 6 if quick else 7),
                                                  invariants=inv, properties=["ReadinessMonotone"]), "rebal-e2e", timeout=1500)
        vlib.mc(ctx, "MC_RebalE2E", vlib.make_cfg(constants=mcc('<< <<"a", 1>>, <<"b", 1>>, <<"c", 1>> >>', 5 if quick else 6, 5 if quick else 6,
                                                                "{200, 504, 505}"), invariants=inv), "rebal-e2e-three", timeout=1500)
        vlib.mc(ctx, "MC_RebalE2E", vlib.make_cfg(constants=mcc('<< <<"a", 1>>, <<"b", 2>> >>', 6, 6), invariants=["NeverAdjusts"]),
                "rebal-e2e-probe-adjusts", expect="NeverAdjusts")
        scs = scenarios(ctx)
    tp = vlib.run_scenarios(ctx, "rebale2e", scs, "x02")
    res = vlib.validate_trace(ctx, "Trace_RebalE2E", tp, "x02")
    trs = vlib.scenario_traces(tp)
    for dft in res.get("drift", []):
        res.setdefault("bad", []).append({"scn": dft["scn"], "line": dft["line"], "clause": "X02.ModelAgrees"})
    res["drift"] = []
    vlib.collect(ctx, res, {s["id"]: s for s in scs}, "rebale2e", classify, PFX + ["TRACE."], trs)
    ctx.traces += len(scs)
    for s in scs:
        ws = [tuple(sorted((w["k"], w["w"]) for w in e["weights"])) for e in trs.get(s["id"], []) if e.get("e") == "Req"]
        if len(set(ws)) > 2:
            ctx.distinct.add(s["id"])
    return vlib.finish(ctx, "model_checking",
                       "scenario = pool of 2-4 weighted servers, phases in which every server answers from a status profile (healthy, "
                       "flaky, failing, client errors, codes at the edges of the meter's range), idle gaps longer than the window, "
                       "membership changes; non-trivial = the effective weights took at least three different values",
                       ASSUMPTIONS)
