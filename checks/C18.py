"""C18 - the breaker trips exactly when its condition holds, and side effects fire once."""
import random

import vlib
import breakercommon as B

INV = ["NoC18", "ModelAgrees"]
PFX = ["C18."]


def scenarios(ctx):
    rng = random.Random(ctx.seed * 9973 + 18)
    quick = ctx.quick()
    out = B.tlc_scenarios(ctx, "tlc", 120 if quick else 1200, 30, ctx.seed + 18)
    for i in range(150 if quick else 1500):
        ast = B.random_ast(rng, rng.choice([0, 1, 1, 2, 2]))
        tick = rng.choice([100, 100, 250, 1000])
        cfg = {"tick_ms": tick, "fallback": rng.randint(1, 30), "recovery": rng.randint(1, 30), "check": rng.choice([1, 1, 2, 5, 10]),
               "ast": ast, "expr": B.render(ast, full=rng.random() < 0.5), "webhook": rng.random() < 0.3}
        lat = {100: (0, 0, 1, 5, 20), 250: (0, 0, 2, 8), 1000: (0, 0, 1, 2)}[tick]
        out.append({"id": "expr-%d" % i, "cfg": cfg, "steps": B.history(rng, 120 if quick else 400, tick, lat_ticks=lat)})
    # long-lived breakers: responses in more than six successive 10 s periods (the rolling latency histogram has wrapped),
    # then a trip on a latency condition, the fallback and recovery periods, and fast responses afterwards: the metrics
    # window since the trip contains only those
    for i in range(12 if quick else 80):
        tick = 1000
        q, ms = rng.choice([(50, 100), (50, 300), (90, 1000), (99, 300)])
        ast = {"k": "latency", "q": q, "op": rng.choice([">", ">="]), "ms": ms}
        fallback, recovery = rng.randint(1, 12), rng.randint(1, 12)
        cfg = {"tick_ms": tick, "fallback": fallback, "recovery": recovery, "check": 1, "ast": ast, "expr": B.render(ast)}
        steps, rid = [], 0
        def req(code, hold):
            nonlocal rid
            rid += 1
            steps.append({"op": "start", "r": rid})
            if hold:
                steps.append({"op": "adv", "d": hold})
            steps.append({"op": "finish", "r": rid, "code": code})
        for _ in range(rng.randint(3, 6)):
            req(200, 0)
        periods = rng.randint(6, 9)
        for pnum in range(periods):
            steps.append({"op": "adv", "d": 10})
            slow = pnum >= rng.randint(0, 2)
            for _ in range(rng.randint(1, 3)):
                req(200, rng.choice([2, 3, 5]) if slow else 0)
        for _ in range(8):      # make sure the slow tail dominates and trips
            req(200, 5)
        steps.append({"op": "adv", "d": fallback + 1})
        req(200, 0)
        steps.append({"op": "adv", "d": recovery + 1})
        for _ in range(rng.randint(2, 6)):
            req(200, 0)
            steps.append({"op": "adv", "d": 2})
        out.append({"id": "histwrap-%d" % i, "cfg": cfg, "steps": steps})
    return out


def run(ctx, replay):
    quick = ctx.quick()
    if replay:
        return B.replay_one(ctx, replay, PFX)
    vlib.mc(ctx, "MC_Breaker", vlib.make_cfg(constants=B.mc_consts(6 if quick else 7, 10 if quick else 11, [2], [1, 2, 3]),
                                             invariants=INV), "breaker-trip-iff", timeout=1500)
    scs = scenarios(ctx)
    B.execute(ctx, scs, "c18", PFX)
    B.stress(ctx, PFX)
    return vlib.finish(ctx, "model_checking",
                       "scenario = (condition expression from the grammar, rendered with minimal or full parentheses) x (history of "
                       "responses with codes, latencies, advances, overlapping completions); at every evaluation point the observed "
                       "trip is compared with Eval(expression, recorded responses); side effects counted at quiescence; "
                       "non-trivial = the breaker changed state", B.ASSUMPTIONS)
