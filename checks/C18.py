"""C18 - the breaker trips exactly when its condition holds, and side effects fire once."""
import random

import vlib
import breakercommon as B

INV = ["NoC18", "ModelAgrees"]
PFX = ["C18."]


def scenarios(ctx):
    rng = random.Random(ctx.seed * 9973 + 18)
    quick = ctx.quick()
    out = B.tlc_scenarios(ctx, "tlc", 120 if quick else 1200, 30, ctx.seed + 18)
    for i in range(150 if quick else 1500):
        ast = B.random_ast(rng, rng.choice([0, 1, 1, 2, 2]))
        tick = rng.choice([100, 100, 250, 1000])
        cfg = {"tick_ms": tick, "fallback": rng.randint(1, 30), "recovery": rng.randint(1, 30), "check": rng.choice([1, 1, 2, 5, 10]),
               "ast": ast, "expr": B.render(ast, full=rng.random() < 0.5), "webhook": rng.random() < 0.3}
        lat = {100: (0, 0, 1, 5, 20), 250: (0, 0, 2, 8), 1000: (0, 0, 1, 2)}[tick]
        out.append({"id": "expr-%d" % i, "cfg": cfg, "steps": B.history(rng, 120 if quick else 400, tick, lat_ticks=lat)})
    return out


def run(ctx, replay):
    quick = ctx.quick()
    if replay:
        return B.replay_one(ctx, replay, PFX)
    vlib.mc(ctx, "MC_Breaker", vlib.make_cfg(constants=B.mc_consts(6 if quick else 7, 10 if quick else 11, [2], [1, 2, 3]),
                                             invariants=INV), "breaker-trip-iff", timeout=1500)
    scs = scenarios(ctx)
    B.execute(ctx, scs, "c18", PFX)
    B.stress(ctx, PFX)
    return vlib.finish(ctx, "model_checking",
                       "scenario = (condition expression from the grammar, rendered with minimal or full parentheses) x (history of "
                       "responses with codes, latencies, advances, overlapping completions); at every evaluation point the observed "
                       "trip is compared with Eval(expression, recorded responses); side effects counted at quiescence; "
                       "non-trivial = the breaker changed state", B.ASSUMPTIONS)
