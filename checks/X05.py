"""X05 (extension, not one of the listed properties) - executions that my drivers did not produce: the repository's own test
suite is run with the verif tag and VERIF_TRACE_FILE, and the hook events of every balancer, limiter, breaker and rebalancer
object the tests create are validated against Trace_Suite.tla (per-object models restarted by constructor events)."""
import json
import os
import subprocess

import vlib

PFX = ["S."]
PACKAGES = ["roundrobin", "connlimit", "ratelimit", "cbreaker", "buffer", "forward", "stream", "trace"]
BIG = 2 ** 31 - 1


def record(ctx, pkg):
    out = os.path.join(ctx.work, "suite-%s.ndjson" % pkg.replace("/", "_"))
    env = dict(os.environ, GOFLAGS="-mod=mod", GOPROXY="off", GOSUMDB="off", GOTOOLCHAIN="local", VERIF_TRACE_FILE=out)
    p = subprocess.run(["go", "test", "-tags", "verif", "-vet=off", "-count=1", "./%s/" % pkg], cwd=vlib.REPO, env=env,
                       stdout=subprocess.PIPE, stderr=subprocess.STDOUT, text=True, timeout=1200)
    if p.returncode != 0:
        raise vlib.InfraError("the repository's tests of %s do not pass with the verif tag:\n%s" % (pkg, p.stdout[-2000:]))
    evs = []
    if os.path.exists(out):
        for line in open(out):
            if line.strip():
                evs.append(json.loads(line))
    evs.sort(key=lambda e: e["seq"])
    return evs


def small(x, base_ms):
    """hook arguments are int64 nanoseconds or absolute UnixNano instants; TLC's integers are 32-bit: durations become
    milliseconds, instants milliseconds since the first event of the file"""
    if isinstance(x, bool) or not isinstance(x, int):
        return x
    if abs(x) <= BIG:
        return x
    ms = x // 10 ** 6
    if abs(ms) > BIG:
        ms -= base_ms
    return max(-BIG, min(BIG, ms))


def run(ctx, replay):
    lines, per_pkg = [], {}
    for pkg in PACKAGES:
        evs = record(ctx, pkg)
        per_pkg[pkg] = len(evs)
        if not evs:
            continue
        base = min(e["t"] for e in evs) // 10 ** 6
        for e in evs:
            args = list(e["args"])
            if e["ev"] in ("rb.new", "cb.new"):            # durations in ns -> ms
                args = [a // 10 ** 6 if isinstance(a, int) and not isinstance(a, bool) else a for a in args]
            lines.append({"e": e["ev"], "comp": pkg, "obj": "%s:%s:%s" % (pkg, e["pid"], e["obj"]),
                          "args": [small(a, base) for a in args], "t": small(e["t"], base)})
    tp = os.path.join(ctx.work, "suite.ndjson")
    with open(tp, "w") as f:
        for ln in lines:
            f.write(json.dumps(ln) + "\n")
    res = vlib.validate_trace(ctx, "Trace_Suite", tp, "x05")
    for b in res.get("bad", []):
        vlib.add_violation(ctx, b["clause"], b["clause"] + "/" + b["scn"], {"id": "suite", "cfg": {}, "steps": [], "line": b["line"]},
                           "suite", detail="package=%s trace line=%s event=%s" % (b["scn"], b["line"], json.dumps(lines[b["line"] - 1])[:300]))
    ctx.traces += len([p for p in per_pkg if per_pkg[p]])
    ctx.scenarios += len(PACKAGES)
    objs = {ln["obj"] for ln in lines}
    ctx.distinct |= objs
    ctx.extra["suite_events_per_package"] = per_pkg
    ctx.extra["objects_tracked"] = len(objs)
    return vlib.finish(ctx, "model_checking",
                       "trace = hook events of one package's test run (go test -tags verif), ordered by the sequence number taken inside "
                       "the critical section; one per-object model per balancer / limiter / breaker / rebalancer instance the tests "
                       "create; non-trivial = distinct objects tracked",
                       ["the tests are not modified; nothing is known about them except the hook lines",
                        "instants and durations are reduced to milliseconds (TLC integers are 32-bit)",
                        "extension check: not part of MANIFEST.json"])
