"""Shared pieces of the rate-limiter checks (C03, C13, C14)."""
import random

import vlib
from vlib import Raw, Def

ASSUMPTIONS = [
    "TLC 1.8 and the CommunityModules JSON reader are trusted",
    "time is an integer number of ticks; generated rates have period divisible by average so that timePerToken is a whole "
    "number of ticks and advertised delays are exact",
    "the oxy clock is frozen and advanced only by the scenario",
    "decisions are observed at the HTTP surface (200 / 429 + X-Retry-In / other) or at TokenBucketSet.Consume",
]


def rates_tla(sets):
    return Def("{" + ", ".join("<<" + ", ".join("[p |-> %d, a |-> %d, b |-> %d]" % r for r in rs) + ">>" for rs in sets) + "}")


def consts(sources, sets, tps, cap, amounts, advances, maxreq, horizon, refresh=True, norollback=False, pot=False, solo=False, depth=None):
    c = {"Sources": Raw("{" + ", ".join('"%s"' % s for s in sources) + "}"),
         "RateSets": rates_tla(sets), "Tps": tps, "Cap": cap,
         "Amounts": Raw("{" + ", ".join(map(str, amounts)) + "}"),
         "Advances": Raw("{" + ", ".join(map(str, advances)) + "}"),
         "MaxReq": maxreq, "Horizon": horizon, "RefreshOnAccess": refresh, "NoRollback": norollback,
         "TrackPot": pot, "TrackSolo": solo}
    if depth is not None:
        c["Depth"] = depth
    return c


def tlc_scenarios(ctx, prefix, sources, sets, tps, cap, amounts, advances, num, depth, seed, extra_cfg=None):
    c = consts(sources, sets, tps, cap, amounts, advances, depth, 10 ** 6, depth=depth)
    behs = vlib.gen_tlc(ctx, "Gen_Rate", vlib.make_cfg(spec="GSpec", constants=c, invariants=["Emit"]),
                        "gen-rate-" + prefix, num=num, depth=depth + 1, seed=seed)
    out = []
    for i, b in enumerate(behs):
        cfg = {"tick_ms": 1000 // tps, "rates": b["rates"], "cap": cap, "level": "http", "qualified": len(sources) <= cap}
        cfg.update(extra_cfg or {})
        out.append({"id": "%s-%d" % (prefix, i), "cfg": cfg, "steps": b["steps"]})
    return out


def random_rates(rng, tps, multi=None):
    """Rate sets whose period is >= 1 s, divisible by the average (whole-tick timePerToken), burst <= 5 x average."""
    n = multi if multi is not None else rng.choice([1, 1, 1, 2, 2, 3])
    periods = sorted(rng.sample([1, 2, 5, 10, 30, 60], n))
    out = []
    for sec in periods:
        p = sec * tps
        divs = [a for a in range(1, min(p, 60) + 1) if p % a == 0]
        a = rng.choice(divs)
        b = rng.randint(1, 5 * a)
        out.append({"p": p, "a": a, "b": b})
    return out


def byte_quota_scenarios(prefix, extra_cfg):
    """byte-weighted use: amounts are request sizes, quotas are hourly/daily, so deficits of 10^5..10^7 tokens meet periods of
    10^12..10^14 ns (tick 100 ms; timePerToken one tick)."""
    out = []
    fam = [(864000, 864000, 400000, [400000, 150000, 300000, 399999, 1]),         # 864000 per 24 h
           (36000, 36000, 6000000, [6000000, 3000000, 5500000, 2000000, 1]),      # 36000 per hour
           (864000, 864000, 250000, [250000, 110000, 250000, 100000])]
    for i, (p, a, b, amounts) in enumerate(fam):
        for level in ("http", "set"):
            for k, n in enumerate(amounts[1:]):   # one scenario per deficit, so that each starts from an empty bucket
                steps = [{"op": "req", "src": "s1", "n": amounts[0]},
                         {"op": "req", "src": "s1", "n": n}, {"op": "retry", "src": "s1"}, {"op": "req", "src": "s1", "n": 1},
                         {"op": "adv", "d": 7}, {"op": "req", "src": "s1", "n": n}, {"op": "retry", "src": "s1"}, {"op": "idle", "src": "s1"}]
                cfg = {"tick_ms": 100, "rates": [{"p": p, "a": a, "b": b}], "cap": 65536, "level": level, "extract": "custom",
                       "qualified": b <= 5 * a}   # C03 is guaranteed only when the burst refills within the remembered time
                cfg.update(extra_cfg)
                out.append({"id": "%s-bytes-%d-%d-%s" % (prefix, i, k, level), "cfg": cfg, "steps": steps})
    return out


def fast_rate_scenarios(prefix, rng, extra_cfg):
    """thousands of tokens per second (tick 100 us, timePerToken 1..4 ticks): the burst is drained, then requests keep coming
    every tick or two for tens of milliseconds; waits are fractions of a millisecond"""
    out = []
    for i, (a, b) in enumerate([(5000, 100), (10000, 50), (2500, 40), (5000, 7)]):
        for level in ("http", "set"):
            steps = [{"op": "req", "src": "s1", "n": 1} for _ in range(b + 3)]
            for _ in range(250):
                steps.append({"op": "adv", "d": rng.choice([1, 1, 1, 2, 3])})
                steps.append({"op": "req", "src": "s1", "n": rng.choice([1, 1, 1, 2])})
            steps += [{"op": "retry", "src": "s1"}, {"op": "idle", "src": "s1"}]
            # waits that are not a whole number of milliseconds: drain, ask for n (refused), retry after exactly the advertised wait
            for n in (3, 6, 7, 11, 13, 27, 33, b):
                if n <= b:
                    steps += [{"op": "req", "src": "s1", "n": b}, {"op": "req", "src": "s1", "n": n}, {"op": "retry", "src": "s1"},
                              {"op": "idle", "src": "s1"}]
            cfg = {"tick_us": 100, "rates": [{"p": 10000, "a": a, "b": b}], "cap": 65536, "level": level, "extract": "custom",
                   "qualified": True}
            cfg.update(extra_cfg)
            out.append({"id": "%s-fast-%d-%s" % (prefix, i, level), "cfg": cfg, "steps": steps})
    return out


def nondividing_scenarios(prefix, extra_cfg):
    """averages that do not divide the period (3/s, 7/s, 7/min, 45/20s): timePerToken is not a whole tick, so the model's
    prediction is only approximate (approx: no drift, no potential); the observational clauses stay: a drained source that stays
    idle for exactly burst x (period/average) regains its burst, a retry after the advertised wait is admitted"""
    out = []
    fam = [[(10, 3, 5)], [(10, 7, 9)], [(600, 7, 3)], [(200, 45, 20)], [(10, 3, 4), (600, 70, 90)]]
    for i, rates in enumerate(fam):
        for level in ("http", "set"):
            b = min(r[2] for r in rates)
            # drained, then the whole burst asked again: the advertised wait spans more than one period (burst > average)
            steps = [{"op": "req", "src": "s1", "n": b}, {"op": "req", "src": "s1", "n": b}, {"op": "retry", "src": "s1"},
                     {"op": "idlex", "src": "s1"},
                     {"op": "req", "src": "s1", "n": 1}, {"op": "retry", "src": "s1"}, {"op": "idlex", "src": "s1"},
                     {"op": "req", "src": "s1", "n": b}, {"op": "retry", "src": "s1"}, {"op": "idlex", "src": "s1"}]
            cfg = {"tick_ms": 100, "rates": [{"p": p, "a": a, "b": bb} for p, a, bb in rates], "cap": 65536, "level": level,
                   "extract": "custom", "qualified": False, "approx": True}
            cfg.update(extra_cfg)
            out.append({"id": "%s-nondiv-%d-%s" % (prefix, i, level), "cfg": cfg, "steps": steps})
    return out


def ttl_ticks(rates, tps):
    return ((max(r["p"] for r in rates) // tps) * 10 + 1) * tps


def arrival_pattern(rng, rates, tps, length, sources, amounts=True):
    """bursts, sustained traffic far longer than the entry lifetime, idle gaps shorter/equal/longer than the lifetime"""
    steps = []
    ttl = ttl_ticks(rates, tps)
    minb = min(r["b"] for r in rates)
    t = 0
    while len(steps) < length:
        mode = rng.choice(["burst", "sustained", "gap", "trickle", "retry", "idle", "stalefull", "stalefull"])
        src = rng.choice(sources)
        n = rng.choice([1, 1, 1, 2, minb, minb + 1]) if amounts else 1
        if mode == "burst":
            for _ in range(rng.randint(2, 3 * max(r["b"] for r in rates) + 2)):
                steps.append({"op": "req", "src": src, "n": rng.choice([1, n])})
        elif mode == "sustained":
            tpt = min(r["p"] // r["a"] for r in rates)
            dur = rng.choice([1, 3, 5]) * ttl
            step = max(1, rng.choice([tpt // 2, tpt, tpt, 2 * tpt]))
            k = 0
            while k * step < dur and len(steps) < length:
                steps.append({"op": "req", "src": src, "n": 1})
                steps.append({"op": "adv", "d": step})
                k += 1
        elif mode == "gap":
            steps.append({"op": "adv", "d": max(1, ttl + rng.choice([-tps, -1, 0, 1, tps, 3 * ttl]))})
        elif mode == "trickle":
            for _ in range(rng.randint(3, 12)):
                steps.append({"op": "req", "src": rng.choice(sources), "n": 1})
                steps.append({"op": "adv", "d": rng.randint(1, 2 * tps)})
        elif mode == "stalefull":
            # a request that leaves the bucket full without consuming (oversize, or refused by another rate), an idle
            # gap shorter than the entry lifetime, then back-to-back requests for the whole burst
            steps.append({"op": "adv", "d": max(r["b"] * (r["p"] // r["a"]) for r in rates)})
            if rng.random() < 0.6:
                steps.append({"op": "req", "src": src, "n": max(r["b"] for r in rates) + 1})
            else:
                for _ in range(rng.randint(1, 3)):
                    steps.append({"op": "req", "src": src, "n": minb})
            steps.append({"op": "adv", "d": rng.randint(1, max(1, ttl - 1))})
            for _ in range(rng.randint(2, 4)):
                steps.append({"op": "req", "src": src, "n": rng.choice([minb, minb, 1])})
        elif mode == "retry":
            for _ in range(max(r["b"] for r in rates) + 1):
                steps.append({"op": "req", "src": src, "n": 1})
            steps.append({"op": "retry", "src": src})
        else:
            steps.append({"op": "idle", "src": src})
    return steps[:length + 40]
