"""C03 - a source is never admitted faster than its token-bucket rate allows."""
import random

import vlib
import ratecommon as RC

SETS = [[(1, 1, 2)], [(2, 1, 3)], [(1, 1, 1), (3, 1, 2)]]          # tps=1 (tick = 1 s): entry lifetime 11 / 21 / 31 ticks
SETS_BROAD = [[(4, 2, 2)], [(4, 1, 3)], [(2, 1, 1), (8, 2, 3)]]    # tps=2


def classify(clause, sc, report, evs):
    return clause


def scenarios(ctx):
    rng = random.Random(ctx.seed * 65537 + 3)
    quick = ctx.quick()
    out = []
    out += RC.tlc_scenarios(ctx, "tlc1", ["s1"], SETS, 1, 2, [1, 2], [1, 2, 11, 12, 21], 60 if quick else 600, 40, ctx.seed)
    out += RC.tlc_scenarios(ctx, "tlc2", ["s1", "s2"], SETS_BROAD, 2, 2, [1, 2], [1, 2, 3, 42], 60 if quick else 600, 40, ctx.seed + 1)
    n = 40 if quick else 400
    for i in range(n):
        tick = rng.choice([100, 250, 500, 1000])
        tps = 1000 // tick
        rates = RC.random_rates(rng, tps)
        nsrc = rng.randint(1, 4)
        sources = ["s%d" % j for j in range(1, nsrc + 1)]
        steps = RC.arrival_pattern(rng, rates, tps, 250 if quick else 800, sources)
        out.append({"id": "rnd-%d" % i, "cfg": {"tick_ms": tick, "rates": rates, "cap": rng.choice([nsrc, nsrc + 3, 65536]),
                                                "level": rng.choice(["http", "http", "set"]) if nsrc == 1 else "http",
                                                "extract": rng.choice(["custom", "custom", "header"]), "qualified": True},
                    "steps": steps})
    # non-integral periods with the largest burst the property admits (5 x average); drain, stay idle for a gap around the
    # entry lifetime (10 x floor(period) + 1 s) at every phase of the wall-clock second, drain again
    k = 0
    for (p_ticks, a) in [(19, 19), (15, 5), (15, 15), (25, 5), (19, 1), (12, 4), (29, 29)]:
        b = 5 * a
        rates = [{"p": p_ticks, "a": a, "b": b}]
        ttl = ((p_ticks // 10) * 10 + 1) * 10
        phases = range(10) if not quick else rng.sample(range(10), 3)
        for ph in phases:
            for gap in ([ttl - 20, ttl - 11, ttl - 10, ttl - 9, ttl - 5, ttl - 1, ttl, ttl + 1] if not quick else rng.sample(range(ttl - 20, ttl + 2), 4)):
                steps = []
                if ph:
                    steps.append({"op": "adv", "d": ph})
                steps += [{"op": "req", "src": "s1", "n": rng.choice([1, a])} for _ in range(b + 2)]
                steps.append({"op": "adv", "d": max(1, gap)})
                steps += [{"op": "req", "src": "s1", "n": rng.choice([1, a])} for _ in range(b + 2)]
                out.append({"id": "frac-%d" % k, "cfg": {"tick_ms": 100, "rates": rates, "cap": 8, "level": "http", "extract": "custom",
                                                         "qualified": True}, "steps": steps})
                k += 1
    # the ExtractRates option gives the source a rate with a LONGER period than the limiter's defaults: the source is remembered
    # as long as ITS rates need (idle gaps just beyond ten default periods must not hand it a fresh burst)
    for i in range(12 if quick else 120):
        short = rng.choice([1, 2])
        default = [{"p": short, "a": rng.choice([5, 10]), "b": 10}]
        longp = rng.choice([30, 60, 120])
        avg = rng.choice([10, 20])
        special = [dict(default[0]), {"p": longp, "a": avg, "b": avg * rng.choice([1, 2])}]
        steps = []
        for _ in range(10 if quick else 25):
            for _ in range(rng.randint(5, 25)):
                steps.append({"op": "req", "src": "s1", "n": 1})
            steps.append({"op": "adv", "d": rng.choice([1, 1, 2, 10 * short, 10 * short + 1, 10 * short + 2, 10 * short + 3, 2 * longp])})
        out.append({"id": "extracted-%d" % i, "cfg": {"tick_ms": 1000, "rates": default, "srcrates": {"s1": special}, "contractsrc": "s1",
                                                      "cap": 65536, "level": "http", "extract": "custom", "qualified": True, "approx": True},
                    "steps": steps})
    out += RC.byte_quota_scenarios("c03", {})
    out += RC.fast_rate_scenarios("c03", rng, {})
    for s in out:
        if s["cfg"].get("extract") in ("header", "ip"):
            for st in s["steps"]:
                if st["op"] == "req":
                    st["n"] = 1
    return out


def run(ctx, replay):
    quick = ctx.quick()
    if replay:
        return replay_one(ctx, replay, ["C03."])
    inv = ["AdmissionBound"]
    vlib.mc(ctx, "MC_Rate", vlib.make_cfg(constants=RC.consts(["s1"], SETS, 1, 1, [1], [1, 11, 12], 16 if quick else 20,
                                                               40 if quick else 60, pot=True), invariants=inv), "rate-bound-deep")
    vlib.mc(ctx, "MC_Rate", vlib.make_cfg(constants=RC.consts(["s1"], SETS_BROAD, 2, 1, [1, 2], [1, 2, 3], 7 if quick else 8,
                                                               20 if quick else 24, pot=True), invariants=inv), "rate-bound-broad")
    vlib.mc(ctx, "MC_Rate", vlib.make_cfg(constants=RC.consts(["s1"], SETS, 1, 1, [1], [1, 11, 12], 16, 40, refresh=False, pot=True),
                                          invariants=inv), "rate-asis-ttl-at-creation", expect="AdmissionBound")
    vlib.mc(ctx, "MC_Rate", vlib.make_cfg(constants=RC.consts(["s1", "s2"], [[(2, 1, 3)]], 1, 1, [1], [1, 2], 8, 16, pot=True),
                                          invariants=inv), "rate-unqualified-capacity", expect="AdmissionBound")
    # unbounded histories (Apalache): Mnow <= max(Debt + P, 0) is inductive for refill/consume/advance and implies the bound
    for (P, A, B) in ([(4, 2, 3), (10, 1, 5)] if quick else [(4, 2, 3), (10, 1, 5), (6, 3, 7), (60, 5, 25), (1, 1, 1), (12, 4, 20)]):
        ci = "P = %d /\\ A = %d /\\ B = %d /\\ MaxAdv = 40 /\\ NoCheckpoint = FALSE" % (P, A, B)
        tag = "%d-%d-%d" % (P, A, B)
        vlib.apalache(ctx, "TokenBucketInd", "tb-base-" + tag, "CInit", "Init", "IndInv", 0, cinit_def=ci)
        vlib.apalache(ctx, "TokenBucketInd", "tb-step-" + tag, "CInit", "IndInit", "IndInv", 1, cinit_def=ci)
        vlib.apalache(ctx, "TokenBucketInd", "tb-implies-" + tag, "CInit", "IndInit", "Bound", 0, cinit_def=ci)
    vlib.apalache(ctx, "TokenBucketInd", "tb-step-mutant", "CInit", "IndInit", "IndInv", 1, expect_ok=False,
                  cinit_def="P = 6 /\\ A = 3 /\\ B = 7 /\\ MaxAdv = 40 /\\ NoCheckpoint = TRUE")
    scs = scenarios(ctx)
    execute(ctx, scs, "c03", ["C03."])
    overlapping(ctx)
    return vlib.finish(ctx, "model_checking",
                       "scenario = arrival pattern (bursts, sustained traffic across entry expiry, gaps, retries) for a rate set; "
                       "the admission potential is evaluated after every admitted request, i.e. over every interval; distinct = "
                       "distinct (rate set, step sequence); non-trivial = at least one rejection and one admission",
                       RC.ASSUMPTIONS)


OVERLAP = "C03.BoundHoldsWhenRequestsOverlap"


def overlapping(ctx, replaying=False):
    """'however the requests are timed' includes requests of one source that overlap: goroutine driver on fresh limiters (frozen
    clock, one rate with a one-hour period: a source is admitted exactly its burst per round); every other round the rates come
    from a slow rate extractor. The totals at quiescence are decided by Trace_Conc."""
    cfg = {"goroutines": 12, "ops": 150, "rounds": 30 if ctx.quick() else 300, "clause": OVERLAP}
    tp = vlib.os.path.join(ctx.work, "trace-c03-overlap.ndjson")
    p = vlib.run_harness(ctx, ["stress", "rate", "-trace", tp, "-seed", str(ctx.seed), "-cfg", vlib.json.dumps(cfg), "-hang", "120"],
                         allow_fail=True)
    sc = {"id": "rate", "cfg": cfg, "steps": [], "component": "rate-stress"}
    if p.returncode == 3:
        ctx.hangs.append(dict(sc))
        return 0
    if p.returncode != 0:
        raise vlib.InfraError("rate stress driver failed: " + p.stderr[-2000:])
    res = vlib.validate_trace(ctx, "Trace_Conc", tp, "c03-overlap")
    n = 0
    for b in res["bad"]:
        if b["clause"] == OVERLAP:
            n += 1
            vlib.add_violation(ctx, OVERLAP, OVERLAP, dict(sc, recorded=vlib.scenario_traces(tp).get("rate", [])), "rate-stress",
                               detail="overlapping requests of one source were admitted beyond its burst at one instant")
    ctx.traces += 1
    ctx.scenarios += 1
    return n


def execute(ctx, scs, tag, prefixes):
    tp = vlib.run_scenarios(ctx, "rate", scs, tag)
    res = vlib.validate_trace(ctx, "Trace_Rate", tp, tag)
    trs = vlib.scenario_traces(tp)
    vlib.collect(ctx, res, {s["id"]: s for s in scs}, "rate", classify, prefixes + ["TRACE."], trs)
    ctx.traces += len(scs)
    for s in scs:
        evs = trs.get(s["id"], [])
        outs = {e.get("out") for e in evs if e.get("e") == "Req"}
        if "ok" in outs and len(outs) > 1:
            ctx.distinct.add(vlib.json.dumps([s["cfg"].get("rates"), s["steps"]], sort_keys=True))
    if not ctx.samples:
        s = scs[0]
        ctx.samples.append({"scenario": {"id": s["id"], "cfg": s["cfg"], "steps": s["steps"][:12]}, "recorded_events": trs[s["id"]][:8]})
    return res


def replay_one(ctx, path, prefixes):
    rec = vlib.json.load(open(path))
    sc = rec["scenario"]
    if rec.get("component") == "rate-stress":
        if overlapping(ctx, True):
            print("VIOLATION property=%s replay=%s" % (ctx.pid, path))
            return 1
        print("replay: the concurrent driver did not reproduce the report in this run")
        return 0
    tp = vlib.run_scenarios(ctx, "rate", [sc], "replay")
    res = vlib.validate_trace(ctx, "Trace_Rate", tp, "replay")
    bad = [b for b in res["bad"] if any(b["clause"].startswith(p) for p in prefixes)]
    evs = vlib.scenario_traces(tp).get(sc["id"], [])
    for b in bad:
        print("REPORT line=%s clause=%s event=%s" % (b["line"], b["clause"], vlib.json.dumps(evs[b["line"] - 1])))
    if bad:
        print("VIOLATION property=%s replay=%s" % (ctx.pid, path))
        return 1
    print("replay: no contract report in %d events" % len(evs))
    return 0
