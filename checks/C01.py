"""C01 - weighted round-robin selection is exactly proportional to the weights."""
import random

import vlib
import rrcommon as R


def scenarios(ctx):
    rng = random.Random(ctx.seed * 7919 + 1)
    out = []
    quick = ctx.quick()
    # (1) behaviours of the TLA+ model (spec -> code)
    beh = R.tlc_behaviours(ctx, num=150 if quick else 1500, depth=16 if quick else 22, maxadmin=5, seed=ctx.seed)
    for i, steps in enumerate(beh):
        out.append({"id": "tlc-%d" % i, "cfg": {"subject": "rr", "table": i}, "steps": steps})
    # (1b) every weight vector of the exhaustive bound, replayed completely: 2W+2 selections through NextServer and ServeHTTP
    import itertools
    maxn, maxw = (3, 4) if quick else (4, 5)
    j = 0
    for n in range(1, maxn + 1):
        for ws in itertools.product(range(0, maxw + 1), repeat=n):
            steps = R.pool_setup_steps(rng, list(ws), history=False)
            W = R.W_of(ws)
            via = "serve" if j % 3 == 0 else "pick"
            steps += [{"op": via} for _ in range(2 * W + 2)]
            out.append({"id": "all-%d" % j, "cfg": {"subject": "rr", "table": j}, "steps": steps, "weights": list(ws)})
            j += 1
    # (1c) pool changes of every kind as the LAST change before the selections: removal of the server that kept the gcd low or
    #      that carried the maximum weight, re-weighting of an existing server, removal then re-add - no "healing" call afterwards
    j = 0
    base = [(2, 4), (4, 2), (3, 6, 9), (2, 4, 6), (6, 9), (4, 8, 2), (5, 10), (2, 2, 4), (1, 3), (3, 1, 2)]
    for ws in base + [tuple(R.random_pool(rng, 4, 60)) for _ in range(10 if quick else 60)]:
        for extra in (1, 3, 5, 7):
            for pos in range(len(ws) + 1):
                keys = R.KEYS[:len(ws) + 1]
                full = list(ws[:pos]) + [extra] + list(ws[pos:])
                for last in ("remove", "reweight", "badupsert", "rejected"):
                    steps = [{"op": "upsert", "k": k, "v": 0, "w": w} for k, w in zip(keys, full)]
                    steps += [{"op": "pick"} for _ in range(rng.randint(0, 7))]
                    after = list(full)
                    if last == "rejected":       # a call that is refused and changes nothing (existing or new server, weight -1)
                        steps.append({"op": "upsert", "k": rng.choice([keys[pos], "h"]), "v": 0, "w": -1, "w2": -1})
                    elif last == "badupsert":      # an update with two options, the second invalid: fails after applying the first
                        nw = rng.choice([1, 2, 4, 2 * extra, ws[0] + 1])
                        steps.append({"op": "upsert", "k": keys[pos], "v": 0, "w": nw, "w2": -1})
                        after[pos] = nw
                    elif last == "remove":
                        steps.append({"op": "remove", "k": keys[pos], "v": 0})
                        del after[pos]
                    else:
                        nw = rng.choice([0, ws[0] if ws[0] else 1, 2 * extra])
                        steps.append({"op": "upsert", "k": keys[pos], "v": 0, "w": nw})
                        after[pos] = nw
                    W = R.W_of(after)
                    if W > 60:
                        continue
                    steps += [{"op": "pick"} for _ in range(2 * W + 3)]
                    out.append({"id": "chg-%d" % j, "cfg": {"subject": "rr", "table": j}, "steps": steps})
                    j += 1
    out += R.add_family(rng, quick)
    out += R.refused_family(rng, quick, subjects=("rr",))
    # (1d) extreme weights (as large as the trace arithmetic allows): common factors keep the rotation short
    big = 1 << 28
    for j, ws in enumerate([(big, big), (big, 2 * big), (3 * big, big, big), (big, 0, 2 * big), (2 * big + big, 3), (7, 7 * 9, 7 * 2)]):
        W = R.W_of(ws)
        if W > 400:
            continue
        steps = R.pool_setup_steps(rng, list(ws), history=False) + [{"op": "pick"} for _ in range(2 * W + 3)]
        out.append({"id": "huge-%d" % j, "cfg": {"subject": "rr", "table": j}, "steps": steps})
    # (1e) a balancer with sticky sessions: requests routed by their affinity cookie are NOT selections and must not use up
    #      a turn of the rotation; the selections in between (cookie-less requests, NextServer) stay exactly proportional
    for j in range(30 if quick else 300):
        ws = rng.choice([(3, 1), (3, 1, 0), (1, 2, 3), (5, 1, 1), (2, 4), (4, 1, 2, 0)]) if j % 2 == 0 else tuple(R.random_pool(rng, 4, 12))
        keys = R.KEYS[:len(ws)]
        steps = [{"op": "upsert", "k": k, "v": 0, "w": w} for k, w in zip(keys, ws)]
        W = R.W_of(ws)
        if W == 0 or W > 60:
            continue
        steps.append({"op": "serve", "cookie": "none", "mut": "none"})
        for _ in range(3 * W + 3):
            for _ in range(rng.choice([0, 1, 1, 2, 3])):
                steps.append({"op": "serve", "cookie": rng.choice(["issued", "issued", "for:" + rng.choice(keys)]), "mut": "none"})
            steps.append({"op": "serve", "cookie": "none", "mut": "none"} if rng.random() < 0.6 else {"op": "pick"})
        out.append({"id": "sticky-%d" % j, "cfg": {"subject": "rr", "sticky": rng.choice(["raw", "hash", "aes"]), "table": j}, "steps": steps})
    # (2) seeded pools, large weights, 2W+k selections, through NextServer and through ServeHTTP
    n = 120 if quick else 1500
    wcap = 300 if quick else 3000
    for i in range(n):
        ws = R.random_pool(rng, 8, wcap)
        steps = R.pool_setup_steps(rng, ws, history=rng.random() < 0.7)
        W = R.W_of(ws)
        via = "serve" if rng.random() < 0.3 else "pick"
        for _ in range(2 * W + rng.randint(1, 5)):
            steps.append({"op": via})
        out.append({"id": "rnd-%d" % i, "cfg": {"subject": "rr", "table": i}, "steps": steps, "weights": ws})
    return out


def run(ctx, replay):
    quick = ctx.quick()
    if replay:
        return R.replay(ctx, replay, ["C01."])
    # exhaustive: rr.go model satisfies the contract for every pool/history of the bound
    vlib.mc(ctx, "MC_RR", vlib.make_cfg(constants=R.mc_constants(maxw=3 if quick else 4, maxadmin=4 if quick else 5),
                                        invariants=R.C01_INV), "rr-exact")
    vlib.mc(ctx, "MC_RR", vlib.make_cfg(constants=R.mc_constants(maxw=3, maxadmin=3, strict=True),
                                        invariants=["LiteralExact"]), "rr-mutant-strict", expect="LiteralExact")
    vlib.mc(ctx, "MC_RR", vlib.make_cfg(constants=R.mc_constants(maxw=3, maxadmin=3, strict=True),
                                        invariants=["FormsAgree"]), "rr-forms-agree")
    scs = scenarios(ctx)
    R.execute(ctx, scs, "c01", ["C01."])
    R.concurrent(ctx, ["C01."])
    return vlib.finish(ctx, "model_checking",
                       "scenario = admin history + selections; distinct = distinct (weight vector, history shape); "
                       "non-trivial = at least 2 servers with different positive weights or a zero weight",
                       R.ASSUMPTIONS)
