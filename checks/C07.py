"""C07 - the client gets exactly one response: the final attempt's, after bounded retries."""
import random

import vlib
import bufcommon as BC

PFX = ["C07."]
INV = ["NoPanic", "InvocationCount", "FinalDelivered"]


def seeded(ctx, n):
    rng = random.Random(ctx.seed * 1237 + 7)
    out = []
    for i in range(n):
        ast = BC.random_ast(rng, rng.choice([0, 1, 2, 2]))
        mem = rng.choice([1, 8, 64, 4096])
        cfg = {"memReq": mem, "maxReq": -1, "memResp": mem, "maxResp": -1, "ast": ast, "expr": BC.render(ast, full=rng.random() < 0.5)}
        steps = []
        for _ in range(12):
            nat = rng.randint(1, 12)
            scripts = []
            for _k in range(nat):
                w = rng.choice([[], [1], [mem - 1] if mem > 1 else [1], [mem], [mem + 1], [3, mem, 2], [mem * 3], [1] * 5,
                                [0], [4, 0], [0, 4], [mem + 2, 0, 0], [1, 0, 1]])
                scripts.append({"status": rng.choice([0, 200, 201, 404, 429, 500, 501, 502, 502, 503, 504, 504, 505, 599]), "writes": w, "early": False,
                                "read": rng.choice(["none", "half", "all", "copy", "copyhalf"]), "via": rng.choice(["write", "write", "copy"]), "mut": rng.choice(["none", "hdr", "url", "hdrslice", "urlfields"])})
            for scx in scripts:      # an informational response is always followed by an explicit final status
                if scx["status"] != 0 and rng.random() < 0.15:
                    scx["early"] = True
            steps.append({"method": rng.choice(["GET", "POST"]), "framing": rng.choice(["declared", "chunked", "unknown"]),
                          "size": rng.choice([0, 1, mem, mem + 1, 3 * mem]), "hdrs": ["X-A", "X-B2"], "scripts": scripts,
                          "precancel": rng.random() < 0.2})
        out.append({"id": "rnd-%d" % i, "cfg": cfg, "steps": steps})
    return out


def run(ctx, replay):
    quick = ctx.quick()
    if replay:
        return BC.replay_one(ctx, replay, PFX)
    rng = random.Random(ctx.seed)
    cfgs, reqs, sets = BC.small_space(quick)
    vlib.mc(ctx, "MC_Buffer", vlib.make_cfg(constants=BC.mc_constants(cfgs, reqs, sets), invariants=INV), "buffer-one-response")
    vlib.mc(ctx, "MC_Buffer", vlib.make_cfg(constants=BC.mc_constants(cfgs[:6], reqs[:8], sets[:40], implicit=True), invariants=INV),
            "buffer-asis-implicit-status", expect="NoPanic")
    vlib.mc(ctx, "MC_Buffer", vlib.make_cfg(constants=BC.mc_constants(cfgs[:6], reqs[:8], sets[:40], empty=True), invariants=INV),
            "buffer-asis-empty-body", expect="FinalDelivered")
    scs = BC.exchanges_for(cfgs, reqs, sets, rng, limit=400 if quick else None)
    scs += seeded(ctx, 60 if quick else 600)
    BC.execute(ctx, scs, "c07", PFX)
    return vlib.finish(ctx, "model_checking",
                       "exchange = (configuration with retry expression from the grammar) x (request) x (per-attempt scripts: status "
                       "incl. none, write chunking incl. no write, how much of the body is read, what is mutated); the bounded space "
                       "TLC enumerates is replayed on the real buffer (sampled in the quick tier); non-trivial = body or >1 attempt",
                       BC.ASSUMPTIONS, exhaustive=not quick)
