"""C12 - circuit-breaker recovery re-admits traffic along a bounded linear ramp."""
import random

import vlib
import breakercommon as B

INV = ["NoC12", "RampInvariant", "ModelAgrees"]
PFX = ["C12."]


def ramp_scenario(rng, tick, length):
    """trip, wait out the fallback, then a dense / bursty / trickling arrival pattern across the recovery period,
    with the re-admitted requests succeeding or failing"""
    fallback, recovery = rng.randint(1, 30), rng.choice([2, 5, 10, 20, 40, 100, 300])
    cfg = {"tick_ms": tick, "fallback": fallback, "recovery": recovery, "check": rng.choice([1, 2, 5]),
           "ast": B.NETERR, "expr": B.render(B.NETERR)}
    steps, rid = [], 0
    def req(code, hold=0):
        nonlocal rid
        rid += 1
        steps.append({"op": "start", "r": rid})
        if hold:
            steps.append({"op": "adv", "d": hold})
        steps.append({"op": "finish", "r": rid, "code": code})
    while len(steps) < length:
        for _ in range(rng.randint(2, 4)):          # trip it
            req(502)
            steps.append({"op": "adv", "d": rng.choice([1, 2])})
        steps.append({"op": "adv", "d": max(0, fallback + rng.choice([-1, 0, 0, 1, 3]))})
        outcome = rng.choice(["ok", "ok", "failing", "mixed"])
        pattern = rng.choice(["dense", "burst", "trickle", "gap"])
        t = 0
        while t <= recovery + 3 and len(steps) < length + 200:
            n = {"dense": 1, "burst": rng.randint(3, 12), "trickle": 1, "gap": rng.randint(1, 4)}[pattern]
            for _ in range(n):
                code = 200 if outcome == "ok" else 502 if outcome == "failing" else rng.choice([200, 502])
                req(code, hold=rng.choice([0, 0, 0, 1]))
            d = {"dense": rng.choice([0, 1]), "burst": rng.randint(1, max(1, recovery // 4)),
                 "trickle": rng.randint(1, max(1, recovery // 3)), "gap": rng.randint(1, recovery + 2)}[pattern]
            if d:
                steps.append({"op": "adv", "d": d})
            t += d + 0
            if d == 0 and rng.random() < 0.2:
                steps.append({"op": "adv", "d": 1})
                t += 1
        steps.append({"op": "adv", "d": rng.choice([1, 11, 30])})
        for _ in range(3):
            req(200)
    return cfg, steps


def long_recovery_scenario(rng, days, early, late):
    """a recovery period of months (ticks of one second) with many requests early in the ramp, silence, and many late in it:
    recovery[ns] x requests goes beyond 2^63. Arrivals sit on a grid of recovery/100 so that the model's integers stay small."""
    recovery = days * 86400
    unit = recovery // 100
    cfg = {"tick_ms": 1000, "fallback": 10, "recovery": recovery, "check": 1, "ast": B.NETERR, "expr": B.render(B.NETERR)}
    steps, rid = [], 0
    def req(code):
        nonlocal rid
        rid += 1
        steps.append({"op": "start", "r": rid})
        steps.append({"op": "finish", "r": rid, "code": code})
    for _ in range(3):
        req(502)
        steps.append({"op": "adv", "d": 1})
    steps.append({"op": "adv", "d": 11})
    req(200)                                   # enters recovery: the ramp starts here
    at = 0
    for pct, n in ((rng.choice([5, 10, 20]), early), (rng.choice([50, 60]), 5), (rng.choice([80, 90, 95]), late)):
        steps.append({"op": "adv", "d": (pct - at) * unit})
        at = pct
        for _ in range(n):
            req(200)
    steps.append({"op": "adv", "d": (101 - at) * unit})
    for _ in range(3):
        req(200)
    return cfg, steps


def fine_grained_scenario(rng, recovery, offsets):
    """ticks of 100 us: requests arrive at instants that are not whole milliseconds after the recovery began, several at each
    instant, so that the passed fraction is compared with the ramp where the two are a fraction of a millisecond apart"""
    cfg = {"tick_us": 100, "fallback": 20000, "recovery": recovery, "check": 10, "ast": B.NETERR, "expr": B.render(B.NETERR)}
    steps, rid = [], 0
    def req(code):
        nonlocal rid
        rid += 1
        steps.append({"op": "start", "r": rid})
        steps.append({"op": "finish", "r": rid, "code": code})
    for _ in range(3):
        req(502)
        steps.append({"op": "adv", "d": 11})
    steps.append({"op": "adv", "d": 20001})
    req(200)                                   # the ramp starts here
    at = 0
    for off in offsets:
        if off <= at or off > recovery:
            continue
        steps.append({"op": "adv", "d": off - at})
        at = off
        for _ in range(rng.randint(3, 8)):
            req(200)
    steps.append({"op": "adv", "d": recovery - at + 7})
    for _ in range(3):
        req(200)
    return cfg, steps


def scenarios(ctx):
    rng = random.Random(ctx.seed * 8111 + 12)
    quick = ctx.quick()
    out = B.tlc_scenarios(ctx, "tlc", 150 if quick else 1500, 34, ctx.seed + 12, nreq=16)
    for i in range(40 if quick else 400):
        tick = rng.choice([100, 100, 250, 1000])
        cfg, steps = ramp_scenario(rng, tick, 250 if quick else 800)
        out.append({"id": "ramp-%d" % i, "cfg": cfg, "steps": steps})
    for i, (days, early, late) in enumerate([(200, 300, 500), (400, 150, 300)] if quick else
                                            [(200, 300, 500), (400, 150, 300), (150, 500, 1500), (1000, 100, 200)]):
        cfg, steps = long_recovery_scenario(rng, days, early, late)
        out.append({"id": "long-%d" % i, "cfg": cfg, "steps": steps})
    awkward = [[3333, 6666, 9999], [1999, 4999, 6667], [2499, 3334, 5001, 7499], [1111, 2222, 3333, 4444, 5555, 6666, 7777, 8888, 9999],
               [6666], [3333], [9999], [666, 1333, 1999], [4999], [2501, 7501]]
    for i, offs in enumerate(awkward if not quick else awkward[:7]):
        for rec in (10000, 20000) if not quick else (10000,):
            cfg, steps = fine_grained_scenario(rng, rec, [o * rec // 10000 if rec != 10000 else o for o in offs])
            out.append({"id": "fine-%d-%d" % (i, rec), "cfg": cfg, "steps": steps})
    for i in range(5 if quick else 60):
        offs = sorted(rng.sample(range(1, 10000), rng.randint(3, 12)))
        cfg, steps = fine_grained_scenario(rng, 10000, offs)
        out.append({"id": "finernd-%d" % i, "cfg": cfg, "steps": steps})
    return out


def run(ctx, replay):
    quick = ctx.quick()
    if replay:
        return B.replay_one(ctx, replay, PFX)
    vlib.mc(ctx, "MC_Breaker", vlib.make_cfg(constants=B.mc_consts(6 if quick else 7, 10 if quick else 11, [2, 3], [1]),
                                             invariants=INV), "breaker-ramp", timeout=1500)
    vlib.mc(ctx, "MC_Breaker", vlib.make_cfg(constants=B.mc_consts(6, 10, [3], [1], rampbug=True), invariants=INV),
            "breaker-mutant-ratio-before-increment", expect=["NoC12", "RampInvariant"])
    scs = scenarios(ctx)
    B.execute(ctx, scs, "c12", PFX)
    B.stress(ctx, PFX)
    return vlib.finish(ctx, "model_checking",
                       "scenario = trip, fallback period, then an arrival pattern (dense, bursts, trickle, gaps) across the recovery "
                       "period with succeeding/failing re-admitted requests; the ramp inequalities are evaluated at every arrival; "
                       "non-trivial = the breaker changed state", B.ASSUMPTIONS)
