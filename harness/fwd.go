package main

import (
	"bufio"
	"bytes"
	"context"
	"crypto/tls"
	"fmt"
	"io"
	"net"
	"net/http"
	"net/http/httptest"
	"net/textproto"
	"net/url"
	"os"
	"sort"
	"strconv"
	"strings"
	"sync"
	"time"

	"github.com/vulcand/oxy/v2/forward"
)

// rawBackend is a scripted TCP backend that keeps the request head verbatim.
type rawBackend struct {
	ln    net.Listener
	mu    sync.Mutex
	head  string
	body  []byte
	plan  M
	nconn int
}

func newRawBackend() *rawBackend {
	ln, err := net.Listen("tcp", "127.0.0.1:0")
	if err != nil {
		fatal("listen: %v", err)
	}
	b := &rawBackend{ln: ln}
	go b.loop()
	return b
}

func (b *rawBackend) loop() {
	for {
		c, err := b.ln.Accept()
		if err != nil {
			return
		}
		go b.serve(c)
	}
}

func (b *rawBackend) serve(c net.Conn) {
	defer c.Close()
	br := bufio.NewReader(c)
	var head bytes.Buffer
	for {
		line, err := br.ReadString('\n')
		head.WriteString(line)
		if err != nil || line == "\r\n" {
			break
		}
	}
	tp := textproto.NewReader(bufio.NewReader(bytes.NewReader(head.Bytes())))
	tp.ReadLine()
	hdr, _ := tp.ReadMIMEHeader()
	var body []byte
	if n, err := strconv.Atoi(hdr.Get("Content-Length")); err == nil && n > 0 {
		body = make([]byte, n)
		io.ReadFull(br, body)
	}
	b.mu.Lock()
	b.head, b.body = head.String(), body
	b.nconn++
	plan := b.plan
	b.mu.Unlock()
	rst := func() {
		if tc, ok := c.(*net.TCPConn); ok {
			tc.SetLinger(0)
		}
	}
	switch strOr(plan, "mode", "ok") {
	case "upgrade":
		// protocol switch: answer 101 when the request asks for it and the script agrees, then talk over the raw connection
		if hdr.Get("Upgrade") != "" && strOr(plan, "backend", "101") == "101" {
			fmt.Fprintf(c, "HTTP/1.1 101 Switching Protocols\r\nUpgrade: %s\r\nConnection: Upgrade\r\nX-Backend: yes\r\n\r\nhello\n", hdr.Get("Upgrade"))
			c.SetDeadline(time.Now().Add(5 * time.Second))
			line, _ := br.ReadString('\n')
			io.WriteString(c, "echo:"+line)
			return
		}
		io.WriteString(c, "HTTP/1.1 200 OK\r\nX-Backend: yes\r\nContent-Length: 5\r\n\r\nplain")
		return
	case "close_before_head":
		return
	case "reset_before_head":
		rst()
		return
	case "header_timeout":
		time.Sleep(time.Duration(numOr(plan, "stall_ms", 700)) * time.Millisecond)
		return
	case "client_cancel":
		time.Sleep(time.Duration(numOr(plan, "stall_ms", 700)) * time.Millisecond)
		return
	}
	resp := plan["resp"].(M)
	status := numOr(resp, "status", 200)
	size := numOr(resp, "size", 0)
	payload := bodyBytes(int64(size)+3, size)
	var w bytes.Buffer
	fmt.Fprintf(&w, "HTTP/1.1 %d %s\r\n", status, http.StatusText(status))
	for _, h := range list(resp, "e2e") {
		fmt.Fprintf(&w, "%s: resp-%s\r\n", h, h)
	}
	for _, h := range list(resp, "hop") {
		fmt.Fprintf(&w, "%s: resp-%s\r\n", h, h)
	}
	for _, h := range list(resp, "conn") { // the headers the response's Connection header names
		fmt.Fprintf(&w, "%s: resp-%s\r\n", h, h)
	}
	chunked := boolOr(resp, "chunked", false)
	if cn := list(resp, "conn"); len(cn) > 0 {
		names := make([]string, len(cn))
		for i, x := range cn {
			names[i] = x.(string)
		}
		if boolOr(resp, "connlines", false) { // one Connection line per token
			for _, n := range names {
				fmt.Fprintf(&w, "Connection: %s\r\n", n)
			}
		} else {
			fmt.Fprintf(&w, "Connection: %s\r\n", strings.Join(names, ", "))
		}
	}
	if strOr(plan, "mode", "ok") == "abort_body" && boolOr(resp, "chunked", false) {
		// chunked response cut short: head, one chunk, then the connection goes away without the final chunk
		w.WriteString("Transfer-Encoding: chunked\r\n\r\n")
		fmt.Fprintf(&w, "%x\r\n", len(payload))
		w.Write(payload)
		w.WriteString("\r\n")
		c.Write(w.Bytes())
		time.Sleep(50 * time.Millisecond)
		if boolOr(plan, "rst", true) {
			rst()
		}
		return
	}
	if strOr(plan, "mode", "ok") == "abort_body" {
		fmt.Fprintf(&w, "Content-Length: %d\r\n\r\n", size+1000)
		w.Write(payload)
		c.Write(w.Bytes())
		time.Sleep(50 * time.Millisecond)
		rst()
		return
	}
	if chunked {
		w.WriteString("Transfer-Encoding: chunked\r\n\r\n")
		c.Write(w.Bytes())
		cs := numOr(resp, "chunk", 1000)
		if cs <= 0 {
			cs = 1000
		}
		for off := 0; off < len(payload); off += cs {
			end := off + cs
			if end > len(payload) {
				end = len(payload)
			}
			fmt.Fprintf(c, "%x\r\n", end-off)
			c.Write(payload[off:end])
			io.WriteString(c, "\r\n")
			if d := numOr(resp, "pause_ms", 0); d > 0 && off/cs < 4 { // flush pattern: pauses between the first chunks
				time.Sleep(time.Duration(d) * time.Millisecond)
			}
		}
		io.WriteString(c, "0\r\n\r\n")
		return
	}
	fmt.Fprintf(&w, "Content-Length: %d\r\n\r\n", size)
	w.Write(payload)
	c.Write(w.Bytes())
}

type statusRec struct {
	http.ResponseWriter
	code int
}

func (s *statusRec) WriteHeader(c int) { s.code = c; s.ResponseWriter.WriteHeader(c) }
func (s *statusRec) Flush() {
	if f, ok := s.ResponseWriter.(http.Flusher); ok {
		f.Flush()
	}
}

var peerForms = map[string][2]string{ // RemoteAddr, expected IP token
	"v4":     {"203.0.113.7:51234", "203.0.113.7"},
	"v6":     {"[2001:db8::17]:51234", "2001:db8::17"},
	"v6zone": {"[fe80::d806:a55d:eb1b:49cc%eth0]:51234", "fe80::d806:a55d:eb1b:49cc"},
}

func names(l []any) []string {
	out := make([]string, len(l))
	for i, x := range l {
		out[i] = x.(string)
	}
	return out
}

func runFwd(sc Scenario, tr *Trace, seed int64) {
	tr.Emit(M{"e": "Reset", "scn": sc.ID, "cfg": M{}})
	be := newRawBackend()
	defer be.ln.Close()
	hostname, _ := os.Hostname()
	for _, st := range sc.Steps {
		mode := strOr(st, "mode", "ok")
		if mode == "upgrade" {
			runUpgradeStep(be, st, tr)
			continue
		}
		in := M{"e2e": list(st, "e2e"), "hop": list(st, "hop"), "conn": list(st, "conn"), "upstream": list(st, "upstream"),
			"tls": boolOr(st, "tls", false), "hostport": boolOr(st, "hostport", false), "passhost": boolOr(st, "passhost", false),
			"peer": strOr(st, "peer", "v4")}
		for _, k := range []string{"e2e", "hop", "conn", "upstream"} {
			if in[k] == nil {
				in[k] = []any{}
			}
		}
		be.mu.Lock()
		be.plan, be.head, be.body = st, "", nil
		be.mu.Unlock()
		backendAddr := be.ln.Addr().String()
		if mode == "refused" {
			l, _ := net.Listen("tcp", "127.0.0.1:0")
			backendAddr = l.Addr().String()
			l.Close()
		}
		f := forward.New(in["passhost"].(bool))
		f.Transport = &http.Transport{DisableKeepAlives: true, ResponseHeaderTimeout: 300 * time.Millisecond,
			DialContext: (&net.Dialer{Timeout: 2 * time.Second}).DialContext}
		var evMu sync.Mutex
		var events []any
		// listener -> router -> forwarder: the router picks the backend by replacing the URL of the very request it was given
		// (the usual oxy idiom); both notifications of an exchange must name the URL the request had when it reached the listener
		entryURL := ""
		router := http.HandlerFunc(func(w http.ResponseWriter, req *http.Request) {
			req.URL = &url.URL{Scheme: "http", Host: backendAddr}
			f.ServeHTTP(w, req)
		})
		sl := forward.NewStateListener(router, func(u *url.URL, s int) {
			evMu.Lock()
			name := "disconnected"
			if s == forward.StateConnected {
				name = "connected"
			}
			if u == nil || u.String() != entryURL {
				name += "@" + fmt.Sprint(u)
			}
			events = append(events, name)
			evMu.Unlock()
		})
		peer := peerForms[in["peer"].(string)]
		var recMu sync.Mutex
		recorded := 0
		done := make(chan struct{}, 4)
		front := httptest.NewUnstartedServer(http.HandlerFunc(func(w http.ResponseWriter, req *http.Request) {
			defer func() { done <- struct{}{} }()
			evMu.Lock()
			entryURL = req.URL.String()
			evMu.Unlock()
			req.RemoteAddr = peer[0]
			if mode == "precancel" { // the request reaches the forwarder with a context that is already done (the client gave up
				// while an earlier middleware held the request)
				ctx, cancel := context.WithCancel(req.Context())
				cancel()
				req = req.WithContext(ctx)
			}
			sr := &statusRec{ResponseWriter: w}
			defer func() {
				recMu.Lock()
				recorded = sr.code
				recMu.Unlock()
			}()
			sl.ServeHTTP(sr, req)
		}))
		if in["tls"].(bool) {
			front.StartTLS()
		} else {
			front.Start()
		}
		// the client: raw bytes so that the request target is exactly what the scenario says
		target := strOr(st, "target", "/")
		host := "front.example.com"
		if in["hostport"].(bool) {
			host = "front.example.com:8443"
		}
		var reqb bytes.Buffer
		fmt.Fprintf(&reqb, "%s %s HTTP/1.1\r\nHost: %s\r\n", strOr(st, "method", "GET"), target, host)
		for _, h := range names(in["e2e"].([]any)) {
			fmt.Fprintf(&reqb, "%s: v-%s\r\n", h, h)
		}
		for _, h := range names(in["hop"].([]any)) {
			val := "v-" + h
			if h == "Te" {
				val = "gzip"
			}
			fmt.Fprintf(&reqb, "%s: %s\r\n", h, val)
		}
		for _, h := range names(in["upstream"].([]any)) {
			fmt.Fprintf(&reqb, "%s: up-%s\r\n", h, h)
		}
		for _, h := range names(list(st, "upempty")) { // present but empty: nothing was supplied
			fmt.Fprintf(&reqb, "%s:\r\n", h)
		}
		if cn := names(in["conn"].([]any)); len(cn) > 0 {
			// header names are case-insensitive: a token may spell the header it names in any case
			switch strOr(st, "conncase", "asis") {
			case "lower":
				for i := range cn {
					cn[i] = strings.ToLower(cn[i])
				}
			case "upper":
				for i := range cn {
					cn[i] = strings.ToUpper(cn[i])
				}
			}
			if boolOr(st, "connlines", false) { // one Connection line per token
				for _, n := range cn {
					fmt.Fprintf(&reqb, "Connection: %s\r\n", n)
				}
			} else {
				fmt.Fprintf(&reqb, "Connection: %s\r\n", strings.Join(cn, ", "))
			}
		}
		reqb.WriteString("\r\n")
		addr := front.Listener.Addr().String()
		var conn net.Conn
		var err error
		if in["tls"].(bool) {
			conn, err = tls.Dial("tcp", addr, &tls.Config{InsecureSkipVerify: true})
		} else {
			conn, err = net.Dial("tcp", addr)
		}
		if err != nil {
			fatal("dial front: %v", err)
		}
		conn.SetDeadline(time.Now().Add(8 * time.Second))
		conn.Write(reqb.Bytes())
		status, hang := 0, false
		var rh http.Header
		var rbody []byte
		clientErr := ""
		if mode == "client_cancel" {
			time.Sleep(100 * time.Millisecond)
			conn.Close()
		} else {
			resp, err := http.ReadResponse(bufio.NewReader(conn), nil)
			if err != nil {
				clientErr = err.Error()
				if ne, ok := err.(net.Error); ok && ne.Timeout() {
					hang = true
				}
			} else {
				status, rh = resp.StatusCode, resp.Header
				rbody, err = io.ReadAll(resp.Body)
				if err != nil {
					clientErr = err.Error()
				}
				resp.Body.Close()
			}
			conn.Close()
		}
		select {
		case <-done:
		case <-time.After(6 * time.Second):
			hang = true
		}
		ctx, cancel := context.WithTimeout(context.Background(), 3*time.Second)
		front.Config.Shutdown(ctx)
		cancel()
		front.Close()
		recMu.Lock()
		rec := recorded
		recMu.Unlock()
		evMu.Lock()
		evs := append([]any{}, events...)
		evMu.Unlock()
		// what the backend saw
		be.mu.Lock()
		head := be.head
		be.mu.Unlock()
		out := M{"seen": head != "", "targetEq": false, "proto": "", "names": []any{}, "vals": M{}, "xffLast": false, "xffPrior": false, "host": ""}
		if head != "" {
			lines := strings.Split(head, "\r\n")
			parts := strings.SplitN(lines[0], " ", 3)
			if len(parts) == 3 {
				out["targetEq"], out["proto"] = parts[1] == target, parts[2]
			}
			tp := textproto.NewReader(bufio.NewReader(strings.NewReader(strings.Join(lines[1:], "\r\n") + "\r\n")))
			hdr, _ := tp.ReadMIMEHeader()
			var ns []string
			for n := range hdr {
				if n == "Connection" && http.Header(hdr).Get(n) == "close" {
					continue // added by the proxy's own transport (keep-alives are off), not forwarded from the client
				}
				if n != "Host" && n != "User-Agent" && n != "Accept-Encoding" && n != "Content-Length" {
					ns = append(ns, n)
				}
			}
			sort.Strings(ns)
			nl := make([]any, len(ns))
			for i, n := range ns {
				nl[i] = n
			}
			out["names"] = nl
			own := map[string][]string{
				"X-Forwarded-Proto":  {map[bool]string{true: "https", false: "http"}[in["tls"].(bool)]},
				"X-Forwarded-Host":   {host},
				"X-Forwarded-Server": {hostname},
				"X-Real-Ip":          {peer[1]},
			}
			if in["hostport"].(bool) {
				own["X-Forwarded-Port"] = []string{"8443"}
			} else {
				own["X-Forwarded-Port"] = []string{map[bool]string{true: "443", false: "80"}[in["tls"].(bool)]}
			}
			vals := M{}
			for h, acc := range own {
				v := http.Header(hdr).Get(h)
				cls := "other"
				switch {
				case v == "":
					cls = "absent"
				case v == "up-"+h:
					cls = "upstream"
				default:
					for _, a := range acc {
						if v == a {
							cls = "own"
						}
					}
				}
				vals[h] = cls
			}
			out["vals"] = vals
			xff := http.Header(hdr).Get("X-Forwarded-For")
			ps := strings.Split(xff, ", ")
			last := ps[len(ps)-1]
			out["xffLast"] = last == peer[1] || strings.HasPrefix(last, peer[1]+"%")
			out["xffPrior"] = len(ps) > 1 && ps[0] == "up-X-Forwarded-For"
			switch http.Header(hdr).Get("Host") {
			case backendAddr:
				out["host"] = "backend"
			case host:
				out["host"] = "client"
			default:
				out["host"] = "other"
			}
		}
		// what the client got
		respOK := M{"e2e": true, "hopAbsent": true, "bodyEq": true}
		if mode == "ok" && rh != nil {
			resp := st["resp"].(M)
			for _, h := range names(list(resp, "e2e")) {
				if rh.Get(h) != "resp-"+h {
					respOK["e2e"] = false
				}
			}
			for _, h := range append(names(list(resp, "hop")), names(list(resp, "conn"))...) {
				if rh.Get(h) != "" {
					respOK["hopAbsent"] = false
				}
			}
			want := bodyBytes(int64(numOr(resp, "size", 0))+3, numOr(resp, "size", 0))
			respOK["bodyEq"] = bytes.Equal(rbody, want)
		}
		wantStatus := 200
		if mode == "ok" {
			wantStatus = numOr(st["resp"].(M), "status", 200)
		}
		tr.Emit(M{"e": "Fwd", "in": in, "out": out, "mode": mode, "status": status, "recorded": rec, "wantok": wantStatus,
			"resp": respOK, "events": evs, "hang": hang, "clienterr": clientErr, "target": target})
	}
}

// runUpgradeStep: a request that asks for a protocol switch (Upgrade + a Connection header in some spelling) through the
// forwarder to a backend that answers 101 (or declines with 200); afterwards bytes must flow both ways.
func runUpgradeStep(be *rawBackend, st M, tr *Trace) {
	be.mu.Lock()
	be.plan, be.head, be.body = st, "", nil
	be.mu.Unlock()
	backendAddr := be.ln.Addr().String()
	f := forward.New(boolOr(st, "passhost", false))
	f.Transport = &http.Transport{DisableKeepAlives: true, ResponseHeaderTimeout: 2 * time.Second,
		DialContext: (&net.Dialer{Timeout: 2 * time.Second}).DialContext}
	var evMu sync.Mutex
	var events []any
	entryURL := ""
	router := http.HandlerFunc(func(w http.ResponseWriter, req *http.Request) {
		req.URL = &url.URL{Scheme: "http", Host: backendAddr}
		f.ServeHTTP(w, req)
	})
	sl := forward.NewStateListener(router, func(u *url.URL, s int) {
		evMu.Lock()
		name := "disconnected"
		if s == forward.StateConnected {
			name = "connected"
		}
		if u == nil || u.String() != entryURL {
			name += "@" + fmt.Sprint(u)
		}
		events = append(events, name)
		evMu.Unlock()
	})
	done := make(chan struct{}, 4)
	front := httptest.NewServer(http.HandlerFunc(func(w http.ResponseWriter, req *http.Request) {
		defer func() { done <- struct{}{} }()
		evMu.Lock()
		entryURL = req.URL.String()
		evMu.Unlock()
		sl.ServeHTTP(w, req)
	}))
	var reqb bytes.Buffer
	fmt.Fprintf(&reqb, "GET /up?x=1 HTTP/1.1\r\nHost: front.example.com\r\nUpgrade: %s\r\n", strOr(st, "proto", "demo"))
	for _, line := range list(st, "connhdr") {
		fmt.Fprintf(&reqb, "Connection: %s\r\n", line.(string))
	}
	reqb.WriteString("X-End: e\r\n\r\n")
	conn, err := net.Dial("tcp", front.Listener.Addr().String())
	if err != nil {
		fatal("dial front: %v", err)
	}
	conn.SetDeadline(time.Now().Add(6 * time.Second))
	conn.Write(reqb.Bytes())
	br := bufio.NewReader(conn)
	status, backHdr, upHdr, down, up, body, hang := 0, false, "", false, false, "", false
	resp, err := http.ReadResponse(br, nil)
	if err != nil {
		if ne, ok := err.(net.Error); ok && ne.Timeout() {
			hang = true
		}
	} else {
		status, backHdr, upHdr = resp.StatusCode, resp.Header.Get("X-Backend") == "yes", resp.Header.Get("Upgrade")
		if status == http.StatusSwitchingProtocols {
			line, _ := br.ReadString('\n')
			down = line == "hello\n"
			io.WriteString(conn, "ping\n")
			line, _ = br.ReadString('\n')
			up = line == "echo:ping\n"
		} else {
			b, _ := io.ReadAll(resp.Body)
			body = string(b)
		}
	}
	conn.Close()
	select {
	case <-done:
	case <-time.After(6 * time.Second):
		hang = true
	}
	front.CloseClientConnections()
	front.Close()
	be.mu.Lock()
	head := be.head
	be.mu.Unlock()
	sawUpgrade, sawEnd := false, false
	if head != "" {
		lines := strings.Split(head, "\r\n")
		tp := textproto.NewReader(bufio.NewReader(strings.NewReader(strings.Join(lines[1:], "\r\n") + "\r\n")))
		hdr, _ := tp.ReadMIMEHeader()
		sawUpgrade = http.Header(hdr).Get("Upgrade") == strOr(st, "proto", "demo")
		sawEnd = http.Header(hdr).Get("X-End") == "e"
	}
	evMu.Lock()
	evs := append([]any{}, events...)
	evMu.Unlock()
	// does the request ask for the switch? (a Connection token "upgrade", any case, surrounded by optional blanks)
	asks := false
	for _, line := range list(st, "connhdr") {
		for _, tok := range strings.Split(line.(string), ",") {
			if strings.EqualFold(strings.TrimSpace(tok), "upgrade") {
				asks = true
			}
		}
	}
	tr.Emit(M{"e": "Upg", "asks": asks, "backend": strOr(st, "backend", "101"), "status": status, "backHdr": backHdr, "upHdr": upHdr,
		"proto": strOr(st, "proto", "demo"), "down": down, "up": up, "body": body, "sawUpgrade": sawUpgrade, "sawEnd": sawEnd,
		"seen": head != "", "events": evs, "hang": hang})
}

// stressFwd: ONE forwarder serving overlapping exchanges. Every request has its own body (one byte value repeated); in every
// round one client stalls in the middle of a large response while short exchanges come and go, then reads on. Every client must
// receive exactly the bytes its backend response consisted of.
func stressFwd(cfg M, tr *Trace, seed int64) {
	tr.Emit(M{"e": "Reset", "scn": "fwdconc", "cfg": M{}})
	backend := httptest.NewServer(http.HandlerFunc(func(w http.ResponseWriter, r *http.Request) {
		n, _ := strconv.Atoi(r.URL.Query().Get("n"))
		c := r.URL.Query().Get("c")
		w.Header().Set("X-Backend", c)
		w.WriteHeader(200)
		chunk := bytes.Repeat([]byte(c[:1]), 32*1024)
		for left := n; left > 0; {
			k := len(chunk)
			if left < k {
				k = left
			}
			if _, err := w.Write(chunk[:k]); err != nil {
				return
			}
			left -= k
		}
	}))
	defer backend.Close()
	bu, _ := url.Parse(backend.URL)
	f := forward.New(false)
	front := httptest.NewServer(http.HandlerFunc(func(w http.ResponseWriter, req *http.Request) {
		req.URL.Scheme, req.URL.Host = bu.Scheme, bu.Host
		f.ServeHTTP(w, req)
	}))
	defer front.Close()
	fetch := func(c string, n int, stall time.Duration) (ok bool) {
		conn, err := net.Dial("tcp", front.Listener.Addr().String())
		if err != nil {
			return false
		}
		defer conn.Close()
		conn.SetDeadline(time.Now().Add(20 * time.Second))
		fmt.Fprintf(conn, "GET /x?c=%s&n=%d HTTP/1.1\r\nHost: front.example.com\r\nConnection: close\r\n\r\n", c, n)
		br := bufio.NewReaderSize(conn, 4096)
		resp, err := http.ReadResponse(br, nil)
		if err != nil || resp.StatusCode != 200 || resp.Header.Get("X-Backend") != c {
			return false
		}
		buf := make([]byte, 2048)
		got, first := 0, true
		for {
			k, err := resp.Body.Read(buf)
			for _, b := range buf[:k] {
				if b != c[0] {
					return false
				}
			}
			got += k
			if first && stall > 0 && got > 0 {
				first = false
				time.Sleep(stall) // the proxy's write towards this client blocks meanwhile
			}
			if err != nil {
				break
			}
		}
		return got == n
	}
	rounds := numOr(cfg, "rounds", 6)
	good, total := 0, 0
	for round := 0; round < rounds; round++ {
		var wg sync.WaitGroup
		var mu sync.Mutex
		res := map[string]bool{}
		run := func(c string, n int, stall time.Duration) {
			defer wg.Done()
			ok := fetch(c, n, stall)
			mu.Lock()
			res[c] = ok
			mu.Unlock()
		}
		wg.Add(1)
		go run("A", 8<<20, 400*time.Millisecond) // large and stalled
		time.Sleep(60 * time.Millisecond)
		for i, c := range []string{"B", "C", "D", "E", "F"} {
			wg.Add(1)
			go run(c, 64*1024+i, 0)
			time.Sleep(25 * time.Millisecond)
		}
		wg.Wait()
		for _, ok := range res {
			total++
			if ok {
				good++
			}
		}
	}
	tr.Emit(M{"e": "Totals", "what": "overlapping exchanges through one forwarder whose client received exactly its backend's bytes",
		"expect": total, "got": good, "clause": "C16.ResponseBodyRelayed"})
}

func init() {
	runners["fwd"] = runFwd
	stressors["fwd"] = stressFwd
}
