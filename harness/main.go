// Command oxyharness drives the real vulcand/oxy middlewares (built from
// /repo with -tags verif) through scenario files and records what the code
// did as ndjson traces that TLC validates against the TLA+ trace specs.
package main

import (
	"bufio"
	"encoding/json"
	"flag"
	"fmt"
	"os"
	"sort"
	"sync"
	"time"

	"github.com/vulcand/oxy/v2/verifhook"
)

// M is a generic JSON object.
type M = map[string]any

// Scenario is one self-contained run: configuration plus steps.
type Scenario struct {
	ID    string `json:"id"`
	Cfg   M      `json:"cfg"`
	Steps []M    `json:"steps"`
}

// T0 is the frozen-clock origin: a multiple of one day since the epoch.
var T0 = time.Date(2012, 3, 4, 0, 0, 0, 0, time.UTC)

// Trace writes ndjson events.
type Trace struct {
	mu sync.Mutex
	w  *bufio.Writer
	f  *os.File
	n  int
}

func newTrace(path string) *Trace {
	f, err := os.Create(path)
	if err != nil {
		fatal("create trace: %v", err)
	}
	return &Trace{w: bufio.NewWriterSize(f, 1<<20), f: f}
}

// watchdog state: the scenario being executed and the time of the last recorded event.
var (
	progressMu   sync.Mutex
	lastProgress = time.Now()
	currentScn   string
)

func touch(scn string) {
	progressMu.Lock()
	lastProgress = time.Now()
	if scn != "" {
		currentScn = scn
	}
	progressMu.Unlock()
}

// startWatchdog ends the process with a "Hang" event when no event has been recorded for
// limit: an operation of the code under test that never returns is an observation, not an
// infrastructure failure.
func startWatchdog(t *Trace, limit time.Duration) {
	go func() {
		for {
			time.Sleep(500 * time.Millisecond)
			progressMu.Lock()
			idle, scn := time.Since(lastProgress), currentScn
			progressMu.Unlock()
			if idle > limit {
				b, _ := json.Marshal(M{"e": "Hang", "scn": scn})
				t.mu.Lock()
				t.w.Write(b)
				t.w.WriteByte('\n')
				t.w.Flush()
				fmt.Printf("HARNESS-HANG scn=%s\n", scn)
				os.Exit(3)
			}
		}
	}()
}

// Emit writes one event line.
func (t *Trace) Emit(ev M) {
	if ev["e"] == "Reset" {
		touch(ev["scn"].(string))
	} else {
		touch("")
	}
	b, err := json.Marshal(ev)
	if err != nil {
		fatal("marshal event: %v", err)
	}
	t.mu.Lock()
	t.w.Write(b)
	t.w.WriteByte('\n')
	t.n++
	t.mu.Unlock()
}

func (t *Trace) Close() {
	t.w.Flush()
	t.f.Close()
}

func fatal(format string, a ...any) {
	fmt.Fprintf(os.Stderr, "HARNESS-ERROR: "+format+"\n", a...)
	os.Exit(2)
}

func readScenarios(path string) []Scenario {
	f, err := os.Open(path)
	if err != nil {
		fatal("open scenarios: %v", err)
	}
	defer f.Close()
	var out []Scenario
	sc := bufio.NewScanner(f)
	sc.Buffer(make([]byte, 1<<20), 1<<28)
	for sc.Scan() {
		line := sc.Bytes()
		if len(line) == 0 {
			continue
		}
		var s Scenario
		if err := json.Unmarshal(line, &s); err != nil {
			fatal("bad scenario line: %v", err)
		}
		out = append(out, s)
	}
	return out
}

func num(m M, k string) int {
	v, ok := m[k]
	if !ok {
		fatal("missing numeric field %q in %v", k, m)
	}
	switch x := v.(type) {
	case float64:
		return int(x)
	case int:
		return x
	case bool:
		if x {
			return 1
		}
		return 0
	}
	fatal("field %q not numeric in %v", k, m)
	return 0
}

func numOr(m M, k string, d int) int {
	if _, ok := m[k]; !ok {
		return d
	}
	return num(m, k)
}

func str(m M, k string) string {
	v, ok := m[k]
	if !ok {
		fatal("missing string field %q in %v", k, m)
	}
	s, ok := v.(string)
	if !ok {
		fatal("field %q not a string in %v", k, m)
	}
	return s
}

func strOr(m M, k, d string) string {
	if _, ok := m[k]; !ok {
		return d
	}
	return str(m, k)
}

func boolOr(m M, k string, d bool) bool {
	v, ok := m[k]
	if !ok {
		return d
	}
	b, ok := v.(bool)
	if !ok {
		fatal("field %q not bool in %v", k, m)
	}
	return b
}

func list(m M, k string) []any {
	v, ok := m[k]
	if !ok || v == nil {
		return nil
	}
	l, ok := v.([]any)
	if !ok {
		fatal("field %q not a list in %v", k, m)
	}
	return l
}

func sortedKeys[V any](m map[string]V) []string {
	ks := make([]string, 0, len(m))
	for k := range m {
		ks = append(ks, k)
	}
	sort.Strings(ks)
	return ks
}

// freeze sets the oxy clock to T0.
func freeze() { verifhook.Freeze(T0) }

func advance(d time.Duration) {
	if d > 0 {
		verifhook.Advance(d)
	}
}

// runners maps component name to the scenario executor.
var runners = map[string]func(sc Scenario, tr *Trace, seed int64){}

// stressors maps component name to a concurrent driver.
var stressors = map[string]func(cfg M, tr *Trace, seed int64){}

// generators produce seeded scenarios.
var generators = map[string]func(cfg M, seed int64, n int) []Scenario{}

func main() {
	if len(os.Args) < 3 {
		fatal("usage: oxyharness run|gen|stress <component> [flags]")
	}
	mode, comp := os.Args[1], os.Args[2]
	fs := flag.NewFlagSet(mode, flag.ExitOnError)
	scen := fs.String("scenarios", "", "scenario file (ndjson)")
	out := fs.String("trace", "", "trace output (ndjson)")
	seed := fs.Int64("seed", 1, "seed")
	n := fs.Int("n", 10, "count")
	cfgs := fs.String("cfg", "{}", "json config for gen/stress")
	hang := fs.Int("hang", 30, "seconds without progress after which the run is declared hung")
	fs.Parse(os.Args[3:])
	var cfg M
	if err := json.Unmarshal([]byte(*cfgs), &cfg); err != nil {
		fatal("bad -cfg: %v", err)
	}
	switch mode {
	case "run":
		r, ok := runners[comp]
		if !ok {
			fatal("unknown component %q", comp)
		}
		tr := newTrace(*out)
		startWatchdog(tr, time.Duration(*hang)*time.Second)
		for _, sc := range readScenarios(*scen) {
			touch(sc.ID)
			r(sc, tr, *seed)
		}
		tr.Close()
		fmt.Printf("HARNESS-OK events=%d\n", tr.n)
	case "gen":
		g, ok := generators[comp]
		if !ok {
			fatal("unknown generator %q", comp)
		}
		w := bufio.NewWriter(os.Stdout)
		for _, sc := range g(cfg, *seed, *n) {
			b, _ := json.Marshal(sc)
			w.Write(b)
			w.WriteByte('\n')
		}
		w.Flush()
	case "stress":
		s, ok := stressors[comp]
		if !ok {
			fatal("unknown stress driver %q", comp)
		}
		tr := newTrace(*out)
		startWatchdog(tr, time.Duration(*hang)*time.Second)
		s(cfg, tr, *seed)
		tr.Close()
		fmt.Printf("HARNESS-OK events=%d\n", tr.n)
	default:
		fatal("unknown mode %q", mode)
	}
}
