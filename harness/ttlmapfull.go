package main

import (
	"sort"
	"time"

	"github.com/vulcand/oxy/v2/verifhook"
)

// runTTLMapFull drives the whole public surface of the real TTL map (extension X06). Before every mutating call the
// keys the harness knows to be live are looked up (a live key can be looked up without side effect); after it they
// are looked up again, and the ones the map no longer finds are logged as "missing", together with Len().
// A value of -1 in a scenario stands for a non-integer value (a string is stored).
func runTTLMapFull(sc Scenario, tr *Trace, seed int64) {
	freeze()
	cap := num(sc.Cfg, "cap")
	m := verifhook.NewTTLMap(cap)
	tr.Emit(M{"e": "Reset", "scn": sc.ID, "cfg": M{"cap": cap}})
	now := 0
	exp := map[string]int{}
	liveKeys := func(except string) []string {
		live := []string{}
		for key, e := range exp {
			if e > now && key != except {
				if _, ok := m.Get(key); ok {
					live = append(live, key)
				}
			}
		}
		sort.Strings(live)
		return live
	}
	missingOf := func(live []string) []any {
		missing := []any{}
		for _, key := range live {
			if _, ok := m.Get(key); !ok {
				missing = append(missing, key)
				delete(exp, key)
			}
		}
		return missing
	}
	for _, st := range sc.Steps {
		switch str(st, "op") {
		case "adv":
			d := num(st, "d")
			advance(time.Duration(d) * time.Second)
			now += d
			tr.Emit(M{"e": "Adv", "d": d})
		case "set":
			k, v, ttl := str(st, "k"), num(st, "v"), num(st, "ttl")
			live := liveKeys(k)
			var val any = v
			if v < 0 {
				val = "not a number"
			}
			err := m.Set(k, val, ttl)
			missing := missingOf(live)
			if err == nil {
				exp[k] = now + ttl
			}
			tr.Emit(M{"e": "Set", "k": k, "v": v, "ttl": ttl, "err": err != nil, "missing": missing, "len": m.Len()})
		case "inc":
			k, v, ttl := str(st, "k"), num(st, "v"), num(st, "ttl")
			live := liveKeys(k)
			got, err := m.Increment(k, v, ttl)
			missing := missingOf(live)
			if err == nil {
				exp[k] = now + ttl
			}
			tr.Emit(M{"e": "Inc", "k": k, "v": v, "ttl": ttl, "err": err != nil, "val": got, "missing": missing, "len": m.Len()})
		case "get":
			k := str(st, "k")
			v, ok := m.Get(k)
			val := 0
			if ok {
				if i, isInt := v.(int); isInt {
					val = i
				} else {
					val = -1
				}
			}
			tr.Emit(M{"e": "Get", "k": k, "found": ok, "val": val, "len": m.Len()})
		case "getint":
			k := str(st, "k")
			v, ok, err := m.GetInt(k)
			tr.Emit(M{"e": "GetInt", "k": k, "found": ok, "val": v, "err": err != nil, "len": m.Len()})
		case "rmexp":
			n := num(st, "n")
			live := liveKeys("")
			removed := m.RemoveExpired(n)
			missing := missingOf(live)
			tr.Emit(M{"e": "RmExp", "n": n, "removed": removed, "missing": missing, "len": m.Len()})
		case "rmlast":
			n := num(st, "n")
			live := liveKeys("")
			m.RemoveLastUsed(n)
			missing := missingOf(live)
			tr.Emit(M{"e": "RmLast", "n": n, "missing": missing, "len": m.Len()})
		default:
			fatal("ttlmapfull: unknown op %v", st)
		}
	}
}

func init() { runners["ttlmapfull"] = runTTLMapFull }
