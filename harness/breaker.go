package main

import (
	"fmt"
	"io"
	"math"
	"math/rand"
	"net/http"
	"net/http/httptest"
	"net/url"
	"runtime"
	"strconv"
	"sync"
	"sync/atomic"
	"time"

	"github.com/vulcand/oxy/v2/cbreaker"
	"github.com/vulcand/oxy/v2/verifhook"
)

type countEffect struct{ n atomic.Int64 }

func (c *countEffect) Exec() error { c.n.Add(1); return nil }

var cbStateNames = map[int]string{0: "standby", 1: "tripped", 2: "recovering"}

type breakerSubject struct {
	cb        *cbreaker.CircuitBreaker
	gate      *gateHandler
	drv       *inflightDriver
	fbCount   atomic.Int64
	onTripped countEffect
	onStandby countEffect
	mu        sync.Mutex
	trans     []string
	checked   string
	tick      time.Duration
	hookSrv   *httptest.Server
	hookBad   atomic.Int64
}

// jitterLogger makes every log call of the middleware take a little while and yield the processor: a decision that is
// taken on one side of a log line and acted upon on the other gets a window in which other requests can overtake it.
type jitterLogger struct{}

func (jitterLogger) pause() {
	runtime.Gosched()
	time.Sleep(20 * time.Microsecond)
}
func (j jitterLogger) Debug(string, ...any) { j.pause() }
func (j jitterLogger) Info(string, ...any)  { j.pause() }
func (j jitterLogger) Warn(string, ...any)  { j.pause() }
func (j jitterLogger) Error(string, ...any) { j.pause() }

func newBreakerSubject(cfg M, next http.Handler) *breakerSubject {
	s := &breakerSubject{tick: time.Duration(numOr(cfg, "tick_ms", 100)) * time.Millisecond, checked: "none"}
	if us := numOr(cfg, "tick_us", 0); us > 0 { // sub-millisecond ticks: arrivals that are not on a millisecond boundary
		s.tick = time.Duration(us) * time.Microsecond
	}
	fb := http.HandlerFunc(func(w http.ResponseWriter, _ *http.Request) {
		s.fbCount.Add(1)
		w.WriteHeader(http.StatusServiceUnavailable)
	})
	if next == nil {
		s.gate = newGateHandler()
		next = s.gate
	}
	var fbh http.Handler = fb
	switch strOr(cfg, "fbkind", "default") {
	case "response":
		rf, err := cbreaker.NewResponseFallback(cbreaker.Response{StatusCode: 418, ContentType: "application/x-fallback", Body: []byte("fallback body")})
		if err != nil {
			fatal("NewResponseFallback: %v", err)
		}
		fbh = http.HandlerFunc(func(w http.ResponseWriter, r *http.Request) { s.fbCount.Add(1); rf.ServeHTTP(w, r) })
	case "redirect", "redirect_preserve":
		rd, err := cbreaker.NewRedirectFallback(cbreaker.Redirect{URL: "http://fallback.example.com/base", PreservePath: strOr(cfg, "fbkind", "") == "redirect_preserve"})
		if err != nil {
			fatal("NewRedirectFallback: %v", err)
		}
		fbh = http.HandlerFunc(func(w http.ResponseWriter, r *http.Request) { s.fbCount.Add(1); rd.ServeHTTP(w, r) })
	}
	var onTripped cbreaker.SideEffect = &s.onTripped
	if boolOr(cfg, "webhook", false) {
		// the on-tripped side effect is a real webhook to a local server that counts the deliveries
		s.hookSrv = httptest.NewServer(http.HandlerFunc(func(w http.ResponseWriter, r *http.Request) {
			b, _ := io.ReadAll(r.Body)
			if r.Method == http.MethodPost && r.Header.Get("X-Hook") == "1" && string(b) == "a=b" &&
				r.Header.Get("Content-Type") == "application/x-www-form-urlencoded" {
				s.onTripped.n.Add(1)
			} else {
				s.hookBad.Add(1)
			}
		}))
		wh, err := cbreaker.NewWebhookSideEffect(cbreaker.Webhook{URL: s.hookSrv.URL, Method: http.MethodPost,
			Headers: http.Header{"X-Hook": []string{"1"}}, Form: url.Values{"a": []string{"b"}}})
		if err != nil {
			fatal("NewWebhookSideEffect: %v", err)
		}
		onTripped = wh
	}
	fbDur := time.Duration(num(cfg, "fallback")) * s.tick
	if boolOr(cfg, "fallback_forever", false) {
		fbDur = time.Duration(math.MaxInt64) // the "never recover by itself" idiom
	}
	cb, err := cbreaker.New(next, str(cfg, "expr"),
		cbreaker.FallbackDuration(fbDur),
		cbreaker.RecoveryDuration(time.Duration(num(cfg, "recovery"))*s.tick),
		cbreaker.CheckPeriod(time.Duration(num(cfg, "check"))*s.tick),
		cbreaker.Fallback(fbh), cbreaker.OnTripped(onTripped), cbreaker.OnStandby(&s.onStandby),
		func() cbreaker.Option {
			if boolOr(cfg, "jitterlog", false) {
				return cbreaker.Logger(jitterLogger{})
			}
			return cbreaker.Verbose(false)
		}())
	if err != nil {
		fatal("cbreaker.New(%q): %v", str(cfg, "expr"), err)
	}
	s.cb = cb
	if s.gate != nil {
		s.drv = newInflightDriver(cb, s.gate)
	}
	return s
}

// sink records the breaker's own transitions and evaluations (events are emitted under its lock).
func (s *breakerSubject) sink(e verifhook.Event) {
	if e.Obj != s.cb {
		return
	}
	s.mu.Lock()
	defer s.mu.Unlock()
	switch e.Ev {
	case "cb.state":
		s.trans = append(s.trans, cbStateNames[e.Args[0].(int)])
	case "cb.check":
		if e.Args[0].(bool) {
			s.checked = "true"
		} else {
			s.checked = "false"
		}
	}
}

func (s *breakerSubject) take() ([]any, string) {
	s.mu.Lock()
	defer s.mu.Unlock()
	out := make([]any, len(s.trans))
	for i, t := range s.trans {
		out[i] = t
	}
	c := s.checked
	s.trans, s.checked = nil, "none"
	return out, c
}

// waitEffects waits until the asynchronous side effects stop arriving.
func (s *breakerSubject) waitEffects(wantT, wantS int64) (int64, int64) {
	deadline := time.Now().Add(15 * time.Second) // only waited out when an execution is really missing
	for time.Now().Before(deadline) {
		if s.onTripped.n.Load() >= wantT && s.onStandby.n.Load() >= wantS {
			break
		}
		time.Sleep(time.Millisecond)
	}
	time.Sleep(5 * time.Millisecond) // a surplus execution would show up here
	return s.onTripped.n.Load(), s.onStandby.n.Load()
}

func runBreaker(sc Scenario, tr *Trace, seed int64) {
	freeze()
	s := newBreakerSubject(sc.Cfg, nil)
	verifhook.SetSink(s.sink)
	defer verifhook.SetSink(nil)
	tps := int(time.Second / s.tick)
	tr.Emit(M{"e": "Reset", "scn": sc.ID, "cfg": M{"tps": tps, "fallback": num(sc.Cfg, "fallback"), "recovery": num(sc.Cfg, "recovery"),
		"check": num(sc.Cfg, "check"), "win": 10, "ast": sc.Cfg["ast"]}})
	state := map[string]string{}
	started := map[string]time.Time{}
	var nT, nS int64
	count := func(trans []any) {
		for _, t := range trans {
			if t == "tripped" {
				nT++
			}
			if t == "standby" {
				nS++
			}
		}
	}
	for _, st := range sc.Steps {
		id := fmt.Sprint(st["r"])
		switch str(st, "op") {
		case "adv":
			d := num(st, "d")
			advance(time.Duration(d) * s.tick)
			tr.Emit(M{"e": "Adv", "d": d})
		case "start":
			if state[id] != "" {
				continue
			}
			fb0 := s.fbCount.Load()
			started[id] = verifhook.Now()
			s.drv.precancel = boolOr(st, "precancel", false) // a request its client has already abandoned is a request like any other
			adm, res := s.drv.start(id, "s1")
			trans, _ := s.take()
			count(trans)
			if adm {
				state[id] = "run"
			} else {
				state[id] = "fb"
			}
			fbok := true
			if !adm {
				switch strOr(sc.Cfg, "fbkind", "default") {
				case "default":
					fbok = res.status == 503
				case "response":
					fbok = res.status == 418 && res.ctype == "application/x-fallback" && res.body == "fallback body"
				case "redirect":
					fbok = res.status == 302 && res.location == "http://fallback.example.com/base"
				case "redirect_preserve":
					fbok = res.status == 302 && res.location == "http://fallback.example.com/base/"
				}
			}
			tr.Emit(M{"e": "Start", "r": id, "admitted": adm, "entered": adm, "status": res.status,
				"fallback": s.fbCount.Load() > fb0, "fbok": fbok, "trans": trans})
		case "finish":
			if state[id] != "run" {
				continue
			}
			code := numOr(st, "code", 200)
			lat := int(verifhook.Now().Sub(started[id]) / s.tick)
			if boolOr(st, "abort", false) { // the protected handler aborts (panics) without having answered: not a completed response
				_, ok := s.drv.finish(id, "panic")
				if !ok {
					fatal("breaker: request %s did not return", id)
				}
				state[id] = "done"
				trans, checked := s.take()
				count(trans)
				tr.Emit(M{"e": "Abort", "r": id, "trans": trans, "checked": checked})
				continue
			}
			_, ok := s.drv.finish(id, fmt.Sprintf("status:%d", code))
			if !ok {
				fatal("breaker: request %s did not return", id)
			}
			state[id] = "done"
			trans, checked := s.take()
			count(trans)
			tr.Emit(M{"e": "Finish", "r": id, "code": code, "lat": lat, "trans": trans, "checked": checked})
		default:
			fatal("breaker: unknown op %v", st)
		}
	}
	// quiescence of the traced part: count side effects before the clean-up completions below
	t, sb := s.waitEffects(nT, nS)
	tr.Emit(M{"e": "Effects", "tripped": t, "standby": sb, "hookbad": s.hookBad.Load()})
	if s.hookSrv != nil {
		s.hookSrv.Close()
	}
	for id, v := range state {
		if v == "run" {
			s.drv.finish(id, "status:200")
		}
	}
}

// stressBreaker: goroutines send requests with mixed codes while the clock is advanced by the driver
// between rounds; transitions and admissions come from the hooks, in lock order.
func stressBreaker(cfg M, tr *Trace, seed int64) {
	freeze()
	var codeSeq atomic.Int64
	var subj *breakerSubject
	next := http.HandlerFunc(func(w http.ResponseWriter, req *http.Request) {
		n := codeSeq.Add(1)
		if id, err := strconv.Atoi(req.Header.Get("X-Id")); err == nil && subj != nil {
			verifhook.Emit("harness", "h.enter", subj.cb, id) // same sequence counter as the breaker's own hook events
		}
		runtime.Gosched()
		if n%3 == 0 {
			w.WriteHeader(200)
		} else {
			w.WriteHeader(502)
		}
	})
	c := M{"tick_ms": 100, "expr": "NetworkErrorRatio() > 0.5", "fallback": 20, "recovery": 40, "check": 1, "jitterlog": true}
	s := newBreakerSubject(c, next)
	subj = s
	var reqID atomic.Int64
	tr.Emit(M{"e": "Reset", "scn": "stress", "cfg": M{"tps": 10, "fallback": 20, "recovery": 40, "check": 1, "win": 10,
		"ast": M{"k": "neterr", "op": ">", "num": 1, "den": 2}}})
	rounds := numOr(cfg, "rounds", 30)
	G := numOr(cfg, "goroutines", 8)
	for round := 0; round < rounds; round++ {
		hl := newHookLog(s.cb)
		var wg sync.WaitGroup
		for g := 0; g < G; g++ {
			wg.Add(1)
			go func(g int) {
				defer wg.Done()
				r := rand.New(rand.NewSource(seed + int64(g) + int64(round)*100))
				for i := 0; i < 20; i++ {
					id := int(reqID.Add(1))
					req := httptest.NewRequest(http.MethodGet, "http://front/", nil)
					req.Header.Set("X-Id", strconv.Itoa(id))
					verifhook.Emit("harness", "h.begin", s.cb, id)
					s.cb.ServeHTTP(httptest.NewRecorder(), req)
					if r.Intn(3) == 0 {
						runtime.Gosched()
					}
				}
			}(g)
		}
		wg.Wait()
		passes := 0
		for _, e := range hl.stop() {
			switch e.Ev {
			case "cb.admit":
				if e.Args[0].(string) == "pass" {
					passes++
				}
				tr.Emit(M{"e": "CAdmit", "pass": e.Args[0].(string) == "pass", "state": cbStateNames[e.Args[1].(int)]})
			case "cb.state":
				tr.Emit(M{"e": "CState", "to": cbStateNames[e.Args[0].(int)]})
			case "h.begin":
				tr.Emit(M{"e": "CBegin", "id": e.Args[0].(int)})
			case "h.enter":
				tr.Emit(M{"e": "CEnter", "id": e.Args[0].(int)})
			}
		}
		_ = passes
		d := 1 + (round*7+int(seed))%15
		advance(time.Duration(d) * s.tick)
		tr.Emit(M{"e": "Adv", "d": d})
	}
	t, sb := s.waitEffects(0, 0)
	tr.Emit(M{"e": "CEffects", "tripped": t, "standby": sb})
}

func init() {
	runners["breaker"] = runBreaker
	stressors["breaker"] = stressBreaker
}
