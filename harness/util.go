package main

import (
	"fmt"
	"net/url"
)

func sprintf(f string, a ...any) string { return fmt.Sprintf(f, a...) }

func mustParse(s string) *url.URL {
	u, err := url.Parse(s)
	if err != nil {
		fatal("parse %q: %v", s, err)
	}
	return u
}
