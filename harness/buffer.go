package main

import (
	"bytes"
	"context"
	"fmt"
	"io"
	"math/rand"
	"net/http"
	"net/http/httptest"
	"os"
	"path/filepath"
	"reflect"
	"strconv"
	"strings"

	"github.com/vulcand/oxy/v2/buffer"
)

func bodyBytes(seed int64, size int) []byte {
	b := make([]byte, size)
	r := rand.New(rand.NewSource(seed*7919 + int64(size)))
	r.Read(b)
	return b
}

type attemptSeen struct {
	k                                             int
	methodEq, urlEq, hdrEq, clEq, teEmpty, bodyEq bool
	entryFiles, afterFiles                        int // temporary files present when the handler is entered / after its writes
}

// bufHandler is the protected handler: it checks what it was handed against the client's request and
// answers according to the per-attempt script (the last script repeats).
type bufHandler struct {
	scripts  []M
	k        int
	origBody []byte
	origURL  string
	origHdr  http.Header
	method   string
	seen     []attemptSeen
}

func (h *bufHandler) script() M {
	i := h.k
	if i > len(h.scripts) {
		i = len(h.scripts)
	}
	return h.scripts[i-1]
}

func (h *bufHandler) ServeHTTP(w http.ResponseWriter, req *http.Request) {
	h.k++
	sc := h.script()
	s := attemptSeen{k: h.k, entryFiles: len(tmpFiles())}
	if h.origHdr == nil { // through a real server: the first attempt's view is the reference for URL and headers
		h.origURL, h.origHdr = req.URL.String(), req.Header.Clone()
	}
	s.methodEq = req.Method == h.method
	s.urlEq = req.URL.String() == h.origURL
	s.hdrEq = reflect.DeepEqual(req.Header, h.origHdr)
	s.clEq = req.ContentLength == int64(len(h.origBody))
	s.teEmpty = len(req.TransferEncoding) == 0
	switch strOr(sc, "read", "all") {
	case "all":
		got, err := io.ReadAll(req.Body)
		s.bodyEq = err == nil && bytes.Equal(got, h.origBody)
	case "half":
		n := len(h.origBody) / 2
		got := make([]byte, n)
		_, err := io.ReadFull(req.Body, got)
		s.bodyEq = err == nil && bytes.Equal(got, h.origBody[:n])
	case "copy": // drained with io.Copy (hashing, dumping, teeing): the copy goes through the body's WriteTo when it has one
		var got bytes.Buffer
		_, err := io.Copy(&got, req.Body)
		s.bodyEq = err == nil && bytes.Equal(got.Bytes(), h.origBody)
	case "copyhalf":
		n := len(h.origBody) / 2
		var got bytes.Buffer
		_, err := io.CopyN(&got, req.Body, int64(n))
		s.bodyEq = err == nil && bytes.Equal(got.Bytes(), h.origBody[:n])
	default:
		s.bodyEq = true
	}
	h.seen = append(h.seen, s)
	switch strOr(sc, "mut", "none") {
	case "hdr":
		req.Header.Set("X-Evil", "1")
		for name := range req.Header {
			if name != "X-Evil" {
				req.Header.Del(name)
				break
			}
		}
	case "hdrslice": // edits header VALUES in place, through the slices (a scrubber, a normaliser, a sort)
		for name, vv := range req.Header {
			for i := range vv {
				vv[i] = "SCRUBBED"
			}
			_ = name
		}
	case "urlfields": // edits the URL's fields and user info in place
		req.URL.RawQuery, req.URL.Fragment, req.URL.Host = "scrubbed=1", "frag", "mutated.example"
		if req.URL.User != nil {
			req.URL.User = nil
		}
	case "url":
		req.URL.Path = "/mutated"
		req.URL.RawQuery = "evil=1"
	}
	w.Header().Set("X-Attempt", strconv.Itoa(h.k))
	w.Header().Set(fmt.Sprintf("X-Marker-%d", h.k), "1")
	// a header with several values, and one written straight into the map under a non-canonical key
	w.Header()["X-Multi"] = []string{fmt.Sprintf("m1-%d", h.k), fmt.Sprintf("m2-%d", h.k), fmt.Sprintf("m3-%d", h.k)}
	w.Header()["x-raw-key"] = []string{fmt.Sprintf("r-%d", h.k)}
	if boolOr(sc, "cl0", false) {
		w.Header().Set("Content-Length", "0")
	}
	if boolOr(sc, "grpc", false) {
		w.Header().Set("Grpc-Status", "5")
	}
	if boolOr(sc, "early", false) { // informational response first (what a reverse proxy does for 103 Early Hints)
		w.WriteHeader(http.StatusEarlyHints)
	}
	if st := numOr(sc, "status", 200); st != 0 {
		w.WriteHeader(st)
	}
	for _, c := range list(sc, "writes") {
		n := int(c.(float64))
		chunk := bytes.Repeat([]byte{byte('a' + h.k%26)}, n)
		if strOr(sc, "via", "write") == "copy" {
			// what ServeContent, file servers and hand-written proxies do: io.Copy from a source that is only a Reader
			// (the destination's ReadFrom is used when it has one)
			io.Copy(w, struct{ io.Reader }{bytes.NewReader(chunk)})
		} else {
			w.Write(chunk)
		}
	}
	h.seen[len(h.seen)-1].afterFiles = len(tmpFiles())
	if boolOr(sc, "panic", false) { // the handler aborts after having written (what a reverse proxy does when its backend breaks off)
		panic(http.ErrAbortHandler)
	}
}

// scriptPanics: does the script of attempt k (the last script repeats) abort the handler?
func scriptPanics(scripts []M, k int) bool {
	if k == 0 || len(scripts) == 0 {
		return false
	}
	if k > len(scripts) {
		k = len(scripts)
	}
	return boolOr(scripts[k-1], "panic", false)
}

func tmpFiles() []string {
	dir := os.Getenv("TMPDIR")
	if dir == "" {
		dir = os.TempDir()
	}
	m, _ := filepath.Glob(filepath.Join(dir, "temp-multibuf-*"))
	return m
}

func runBuffer(sc Scenario, tr *Trace, seed int64) {
	freeze()
	cfg := sc.Cfg
	var opts []buffer.Option
	if v := numOr(cfg, "memReq", -1); v >= 0 {
		opts = append(opts, buffer.MemRequestBodyBytes(int64(v)))
	}
	if v := numOr(cfg, "maxReq", -1); v >= 0 {
		opts = append(opts, buffer.MaxRequestBodyBytes(int64(v)))
	}
	if v := numOr(cfg, "memResp", -1); v >= 0 {
		opts = append(opts, buffer.MemResponseBodyBytes(int64(v)))
	}
	if v := numOr(cfg, "maxResp", -1); v >= 0 {
		opts = append(opts, buffer.MaxResponseBodyBytes(int64(v)))
	}
	if e := strOr(cfg, "expr", ""); e != "" {
		opts = append(opts, buffer.Retry(e))
	}
	h := &bufHandler{}
	b, err := buffer.New(h, opts...)
	if err != nil {
		fatal("buffer.New(%v): %v", cfg, err)
	}
	ast := cfg["ast"]
	if ast == nil {
		ast = M{"k": "none"}
	}
	// unset options are reported with the library defaults (mem 0 = 1 MiB default, max -1 = unlimited)
	def := func(k string, d int) int {
		if v := numOr(cfg, k, -1); v >= 0 {
			return v
		}
		return d
	}
	tr.Emit(M{"e": "Reset", "scn": sc.ID, "cfg": M{"memReq": def("memReq", 0), "maxReq": def("maxReq", -1),
		"memResp": def("memResp", 0), "maxResp": def("maxResp", -1), "ast": ast}})
	for _, x := range tmpFiles() {
		os.Remove(x)
	}
	for i, st := range sc.Steps {
		method, framing, size := strOr(st, "method", "POST"), strOr(st, "framing", "declared"), num(st, "size")
		body := bodyBytes(seed+int64(i), size)
		var scripts []M
		for _, s := range list(st, "scripts") {
			scripts = append(scripts, s.(M))
		}
		if len(scripts) == 0 {
			scripts = []M{{"status": 200, "writes": []any{}}}
		}
		*h = bufHandler{scripts: scripts, origBody: body, method: method}
		mk := func() *http.Request {
			var rd io.Reader = bytes.NewReader(body)
			if framing == "chunked" || framing == "unknown" {
				rd = io.MultiReader(bytes.NewReader(body)) // hides the length
			}
			req := httptest.NewRequest(method, "http://front.example.com/a%2Fb/c?x=1&y=%20z", rd)
			for _, hn := range list(st, "hdrs") {
				req.Header.Add(hn.(string), "v-"+hn.(string))
				if strings.HasSuffix(hn.(string), "2") {
					req.Header.Add(hn.(string), "second")
				}
			}
			if framing == "chunked" {
				req.ContentLength = -1
				req.TransferEncoding = []string{"chunked"}
			}
			if framing == "unknown" { // a body of unknown length without HTTP/1.1 framing: how an HTTP/2 request without
				req.ContentLength = -1 // content-length, or a request built by a middleware above, reaches the buffer
				req.TransferEncoding = nil
			}
			return req
		}
		req := mk()
		h.origURL = req.URL.String()
		h.origHdr = req.Header.Clone()
		var status, nbody, hbytes, from int
		var foreign, bodyok, panicked bool
		if strOr(cfg, "via", "direct") == "server" {
			srv := httptest.NewServer(b)
			creq, _ := http.NewRequest(method, srv.URL+"/a%2Fb/c?x=1&y=%20z", io.MultiReader(bytes.NewReader(body)))
			if framing == "declared" {
				creq.ContentLength = int64(size)
			}
			for k, v := range req.Header {
				creq.Header[k] = v
			}
			h.origURL, h.origHdr = "", nil
			resp, err := http.DefaultTransport.RoundTrip(creq)
			if err != nil {
				panicked = true
			} else {
				data, _ := io.ReadAll(resp.Body)
				resp.Body.Close()
				status, nbody = resp.StatusCode, len(data)
				from, foreign, bodyok, hbytes = analyse(resp.Header, data)
			}
			srv.Close()
		} else {
			rec := httptest.NewRecorder()
			if boolOr(st, "precancel", false) { // the client has gone away already (or a deadline set above has passed)
				cctx, cancel := context.WithCancel(req.Context())
				cancel()
				req = req.WithContext(cctx)
			}
			func() {
				defer func() {
					if p := recover(); p != nil {
						panicked = true
					}
				}()
				b.ServeHTTP(rec, req)
			}()
			data := rec.Body.Bytes()
			status, nbody = rec.Code, len(data)
			from, foreign, bodyok, hbytes = analyse(rec.Header(), data)
		}
		files := tmpFiles()
		for _, x := range files {
			os.Remove(x)
		}
		var seen []any
		for _, s := range h.seen {
			seen = append(seen, M{"k": s.k, "methodEq": s.methodEq, "urlEq": s.urlEq, "hdrEq": s.hdrEq, "clEq": s.clEq,
				"teEmpty": s.teEmpty, "bodyEq": s.bodyEq, "entryFiles": s.entryFiles, "afterFiles": s.afterFiles})
		}
		if seen == nil {
			seen = []any{}
		}
		var scr []any
		for _, s := range scripts {
			scr = append(scr, M{"status": numOr(s, "status", 200), "writes": list(s, "writes"), "cl0": boolOr(s, "cl0", false),
				"grpc": boolOr(s, "grpc", false)})
			if scr[len(scr)-1].(M)["writes"] == nil {
				scr[len(scr)-1].(M)["writes"] = []any{}
			}
		}
		tr.Emit(M{"e": "Exch", "req": M{"method": method, "framing": framing, "size": size}, "scripts": scr, "seen": seen,
			"inv": h.k, "status": status, "from": from, "foreign": foreign, "body": nbody, "bodyok": bodyok, "hbytes": hbytes,
			"files": len(files), "panicked": panicked, "scriptpanic": scriptPanics(scripts, h.k)})
	}
}

// analyse tells which attempt's headers and bytes reached the client.
func analyse(hdr http.Header, data []byte) (from int, foreign, bodyok bool, hbytes int) {
	from, _ = strconv.Atoi(hdr.Get("X-Attempt"))
	for name := range hdr {
		if strings.HasPrefix(name, "X-Marker-") {
			if n, _ := strconv.Atoi(strings.TrimPrefix(name, "X-Marker-")); n != from {
				foreign = true
			}
		}
	}
	// the final attempt's multi-valued and raw-keyed headers must arrive whole
	if from > 0 {
		want := fmt.Sprintf("m1-%d|m2-%d|m3-%d", from, from, from)
		raw := strings.Join(hdr["x-raw-key"], "|") + strings.Join(hdr["X-Raw-Key"], "|")
		if strings.Join(hdr["X-Multi"], "|") != want || raw != fmt.Sprintf("r-%d", from) {
			foreign = true
		}
	}
	bodyok = true
	for _, c := range data {
		if c >= 'a' && c <= 'z' {
			hbytes++
		}
		if from == 0 || c != byte('a'+from%26) {
			bodyok = false
		}
	}
	if from == 0 {
		// an error body written by the library: count handler marker bytes only when the whole body is one marker run
		uniform := len(data) > 0
		for _, c := range data {
			if c != data[0] {
				uniform = false
			}
		}
		if !uniform {
			hbytes = 0
		}
	}
	return
}

func init() { runners["buffer"] = runBuffer }
