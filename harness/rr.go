package main

import (
	"errors"
	"fmt"
	"math/rand"
	"net/http"
	"net/http/httptest"
	"net/url"
	"strconv"
	"strings"
	"sync/atomic"
	"time"

	"github.com/vulcand/oxy/v2/memmetrics"
	"github.com/vulcand/oxy/v2/roundrobin"
	"github.com/vulcand/oxy/v2/roundrobin/stickycookie"
	"github.com/vulcand/oxy/v2/verifhook"
)

// urlTable concretises abstract servers [k, v]: k fixes (scheme, host, path) -
// the identity the balancer compares - and v selects userinfo/query variants.
type urlTable struct {
	keys     []string
	base     map[string][3]string // scheme, host, path
	variants []string             // "plain", "userq", "user", "query"
}

func newURLTable(seed int64) *urlTable {
	t := &urlTable{keys: []string{"a", "b", "c", "d", "e", "f", "g", "h"}, base: map[string][3]string{}}
	layouts := [][][3]string{
		{ // distinct hosts, ports, escaped path
			{"http", "10.0.0.1:8081", "/p"}, {"https", "10.0.0.2", "/"}, {"http", "10.0.0.3:8083", "/x%2Fy"},
			{"http", "10.0.0.4", ""}, {"http", "[fe80::1]:8085", "/v6"}, {"https", "h6.example.com", "/a/b"},
			{"http", "10.0.0.7:80", "/"}, {"http", "10.0.0.8", "/q q"},
		},
		{ // identities differing in exactly one component
			{"http", "10.1.0.1", "/"}, {"https", "10.1.0.1", "/"}, {"http", "10.1.0.1", "/other"},
			{"http", "10.1.0.1:81", "/"}, {"http", "10.1.0.2", "/"}, {"https", "10.1.0.2", "/other"},
			{"http", "10.1.0.3", ""}, {"http", "10.1.0.3", "/"},
		},
		{
			{"http", "srv-a.internal:9000", "/api"}, {"http", "srv-b.internal:9000", "/api"}, {"http", "srv-c.internal:9000", "/api"},
			{"http", "srv-a.internal:9001", "/api"}, {"https", "srv-a.internal:9000", "/api"}, {"http", "srv-a.internal:9000", "/api/"},
			{"http", "srv-d.internal", "/%E2%82%AC"}, {"http", "srv-e.internal", "/a;b"},
		},
	}
	lay := layouts[int(seed%int64(len(layouts))+int64(len(layouts)))%len(layouts)]
	for i, k := range t.keys {
		t.base[k] = lay[i]
	}
	t.variants = []string{"plain", "userq", "user", "query", "pipeq", "longq"}
	return t
}

func (t *urlTable) str(k string, v int) string {
	b := t.base[k]
	user, q := "", ""
	switch t.variants[v%len(t.variants)] {
	case "userq":
		user, q = "user:pw@", "?x=1"
	case "user":
		user = "bob@"
	case "query":
		q = "?a=b&c=d"
	case "pipeq":
		q = "?f=a|b"
	case "longq": // a long signed query: the rendered URL (and any cookie minted from it) exceeds 4096 bytes
		q = "?sig=" + strings.Repeat("0123456789abcdef", 280)
	}
	return fmt.Sprintf("%s://%s%s%s%s", b[0], user, b[1], b[2], q)
}

func (t *urlTable) url(k string, v int) *url.URL {
	if _, known := t.base[k]; !known {
		// a key the table does not have (e.g. "?", what abstract() answers for a URL that is not in the table, which only a
		// changed implementation produces): a URL that is in no pool, so that the run goes on and the trace shows the effect
		return &url.URL{Scheme: "http", Host: "not-in-table.invalid", Path: "/" + k}
	}
	u, err := url.Parse(t.str(k, v))
	if err != nil {
		fatal("url table: %v", err)
	}
	return u
}

// abstract maps a URL back to [k, v]; unknown URLs give k = "?".
func (t *urlTable) abstract(u *url.URL) (string, int) {
	if u == nil {
		return "?", 0
	}
	s := u.String()
	for _, k := range t.keys {
		for v := range t.variants {
			if t.url(k, v).String() == s {
				return k, v
			}
		}
	}
	return "?", 0
}

type neverReady struct{}

func (neverReady) Rating() float64           { return 0 }
func (neverReady) Record(int, time.Duration) {}
func (neverReady) IsReady() bool             { return false }

// flapMeter: always ready, rates its server differently every time it is asked, so that the rebalancer keeps adjusting
// (and converging back) whenever its back-off allows.
type flapMeter struct{ rng *rand.Rand }

func (m *flapMeter) Rating() float64           { return []float64{0, 0, 0.3, 1, 0.3}[m.rng.Intn(5)] }
func (m *flapMeter) Record(int, time.Duration) {}
func (m *flapMeter) IsReady() bool             { return true }

// meterFactoryFails makes the rebalancer's meter factory fail for the upsert in progress (the add is then refused).
var meterFactoryFails atomic.Bool

var _ = memmetrics.SplitRatios

// rrSubject is the system under test: a RoundRobin, optionally behind a Rebalancer.
type rrSubject struct {
	tab    *urlTable
	rr     *roundrobin.RoundRobin
	rb     *roundrobin.Rebalancer
	h      *scriptHandler
	sticky *roundrobin.StickySession
	direct bool
}

// scriptHandler is the wrapped handler: it records where the request was routed and
// then does to the request URL what the scenario says.
type scriptHandler struct {
	tab     *urlTable
	invoked int
	k       string
	v       int
	mut     string
	status  int

	concurrent bool
}

func (h *scriptHandler) ServeHTTP(w http.ResponseWriter, req *http.Request) {
	if h.concurrent { // goroutine drivers: no per-request bookkeeping in the shared handler
		w.WriteHeader(200)
		return
	}
	h.invoked++
	h.k, h.v = h.tab.abstract(req.URL)
	switch h.mut {
	case "path":
		req.URL.Path = "/mutated"
		req.URL.RawPath = ""
	case "host":
		req.URL.Host = "evil.example.com"
	case "scheme":
		req.URL.Scheme = "ftp"
	case "user":
		if req.URL.User != nil {
			*req.URL.User = *url.UserPassword("evil", "x")
		} else {
			req.URL.User = url.User("evil")
		}
	case "query":
		req.URL.RawQuery = "evil=1"
	case "all":
		*req.URL = url.URL{Scheme: "ftp", Host: "evil.example.com", Path: "/mutated"}
	}
	w.WriteHeader(h.status)
}

func newCookieValueKey(kind string, alt bool) stickycookie.CookieValue {
	key, salt := []byte("95Bx9JkKX3xbd7z3"), "pepper"
	if alt {
		key, salt = []byte("0therKey0therKey"), "salt2"
	}
	switch kind {
	case "raw", "":
		return &stickycookie.RawValue{}
	case "hash":
		return &stickycookie.HashValue{Salt: salt}
	case "aes":
		v, err := stickycookie.NewAESValue(key, 0)
		if err != nil {
			fatal("aes: %v", err)
		}
		return v
	case "aesttl":
		v, err := stickycookie.NewAESValue(key, stickyTTL)
		if err != nil {
			fatal("aes: %v", err)
		}
		return v
	}
	if strings.HasPrefix(kind, "fb:") {
		parts := strings.SplitN(strings.TrimPrefix(kind, "fb:"), ">", 2)
		v, err := stickycookie.NewFallbackValue(newCookieValueKey(parts[0], alt), newCookieValueKey(parts[1], alt))
		if err != nil {
			fatal("fallback: %v", err)
		}
		return v
	}
	fatal("unknown cookie kind %q", kind)
	return nil
}

const stickyTTL = 60 * time.Second

func newCookieValue(kind string) stickycookie.CookieValue { return newCookieValueKey(kind, false) }

// codecParts lists the simple codecs of a configuration (one, or from/to of a chain).
func codecParts(kind string) []string {
	if strings.HasPrefix(kind, "fb:") {
		return strings.SplitN(strings.TrimPrefix(kind, "fb:"), ">", 2)
	}
	return []string{kind}
}

func newRRSubject(cfg M, seed int64) *rrSubject {
	s := &rrSubject{tab: newURLTable(seed + int64(numOr(cfg, "table", 0)))}
	s.h = &scriptHandler{tab: s.tab, status: 200}
	var opts []roundrobin.LBOption
	var rbopts []roundrobin.RebalancerOption
	if kind := strOr(cfg, "sticky", ""); kind != "" {
		s.sticky = roundrobin.NewStickySession("oxysession").SetCookieValue(newCookieValue(kind))
	}
	subject := strOr(cfg, "subject", "rr")
	if s.sticky != nil && subject == "rr" {
		opts = append(opts, roundrobin.EnableStickySession(s.sticky))
	}
	rr, err := roundrobin.New(s.h, opts...)
	if err != nil {
		fatal("rr.New: %v", err)
	}
	s.rr = rr
	if subject == "rb" || subject == "rba" {
		if subject == "rba" {
			mrng := rand.New(rand.NewSource(seed*31 + 7))
			rbopts = append(rbopts, roundrobin.RebalancerBackoff(time.Second),
				roundrobin.RebalancerMeter(func() (roundrobin.Meter, error) {
					if meterFactoryFails.Load() {
						return nil, errors.New("no meter for you")
					}
					return &flapMeter{rng: mrng}, nil
				}))
		} else {
			rbopts = append(rbopts, roundrobin.RebalancerMeter(func() (roundrobin.Meter, error) {
				if meterFactoryFails.Load() {
					return nil, errors.New("no meter for you")
				}
				return neverReady{}, nil
			}))
		}
		if s.sticky != nil {
			rbopts = append(rbopts, roundrobin.RebalancerStickySession(s.sticky))
		}
		rb, err := roundrobin.NewRebalancer(rr, rbopts...)
		if err != nil {
			fatal("NewRebalancer: %v", err)
		}
		s.rb = rb
	}
	return s
}

// direct: the next administration call goes to the wrapped balancer itself, not through the rebalancer (a balancer that was
// populated before it was wrapped, or that somebody else also manages)
func (s *rrSubject) upsert(u *url.URL, w int, more ...int) error {
	var o []roundrobin.ServerOption
	if w >= 0 {
		o = append(o, roundrobin.Weight(w))
	}
	for _, x := range more { // further options of the same call (a negative weight makes the call fail)
		o = append(o, roundrobin.Weight(x))
	}
	if s.rb != nil && !s.direct {
		return s.rb.UpsertServer(u, o...)
	}
	return s.rr.UpsertServer(u, o...)
}

func (s *rrSubject) remove(u *url.URL) error {
	if s.rb != nil && !s.direct {
		return s.rb.RemoveServer(u)
	}
	return s.rr.RemoveServer(u)
}

func (s *rrSubject) handler() http.Handler {
	if s.rb != nil {
		return s.rb
	}
	return s.rr
}

// members reads the pool through the public inspection calls.
func (s *rrSubject) members() []any {
	var urls []*url.URL
	if s.rb != nil {
		urls = s.rb.Servers()
	} else {
		urls = s.rr.Servers()
	}
	out := make([]any, 0, len(urls))
	for _, u := range urls {
		k, v := s.tab.abstract(u)
		w, ok := s.rr.ServerWeight(u)
		if !ok {
			w = -2
		}
		out = append(out, M{"k": k, "v": v, "w": w})
	}
	return out
}

func runRR(sc Scenario, tr *Trace, seed int64) {
	freeze()
	s := newRRSubject(sc.Cfg, seed)
	cfg := M{"subject": strOr(sc.Cfg, "subject", "rr"), "sticky": strOr(sc.Cfg, "sticky", "")}
	tr.Emit(M{"e": "Reset", "scn": sc.ID, "cfg": cfg})
	type minted struct {
		value string
		key   string
		at    time.Time
		by    string // simple codec that minted it
	}
	var jar *minted
	perKey := map[string]*minted{}
	sticky := strOr(sc.Cfg, "sticky", "")
	parts := codecParts(sticky)
	mintBy := parts[len(parts)-1]
	varOf := map[string]int{}
	for _, st := range sc.Steps {
		switch str(st, "op") {
		case "adv":
			advance(time.Duration(num(st, "d")) * time.Second)
		case "upsert":
			k, v, w := str(st, "k"), numOr(st, "v", 0), numOr(st, "w", -1)
			s.direct = boolOr(st, "direct", false)
			if pv, ok := varOf[k]; ok && boolOr(st, "keepvar", false) {
				v = pv
			}
			varOf[k] = v
			if _, bad := st["w2"]; bad { // a call with several options, the last of which is rejected
				err := s.upsert(s.tab.url(k, v), w, num(st, "w2"))
				tr.Emit(M{"e": "UpsertBad", "k": k, "v": v, "w": w, "err": err != nil, "members": s.members()})
				continue
			}
			if boolOr(st, "meterfail", false) && s.rb != nil {
				// the rebalancer cannot create a meter for the server: a NEW server is refused (an update needs no meter)
				meterFactoryFails.Store(true)
				err := s.upsert(s.tab.url(k, v), w)
				meterFactoryFails.Store(false)
				if err != nil {
					tr.Emit(M{"e": "UpsertFail", "k": k, "v": v, "w": w, "err": true, "members": s.members()})
					continue
				}
				tr.Emit(M{"e": "Upsert", "k": k, "v": v, "w": w, "err": false, "members": s.members()})
				continue
			}
			err := s.upsert(s.tab.url(k, v), w)
			tr.Emit(M{"e": "Upsert", "k": k, "v": v, "w": w, "err": err != nil, "members": s.members()})
		case "remove":
			k, v := str(st, "k"), numOr(st, "v", 0)
			s.direct = boolOr(st, "direct", false)
			err := s.remove(s.tab.url(k, v))
			tr.Emit(M{"e": "Remove", "k": k, "v": v, "err": err != nil, "members": s.members()})
		case "pick":
			u, err := s.rr.NextServer()
			if err != nil {
				tr.Emit(M{"e": "Pick", "err": "err", "k": "", "v": 0})
			} else {
				k, v := s.tab.abstract(u)
				tr.Emit(M{"e": "Pick", "err": "ok", "k": k, "v": v})
			}
		case "serve":
			s.h.invoked, s.h.k, s.h.v = 0, "", 0
			s.h.mut = strOr(st, "mut", "none")
			s.h.status = numOr(st, "hstatus", 200)
			req := httptest.NewRequest(http.MethodGet, "http://front.example.com/some/path?z=1", nil)
			// which cookie does the client present, and is it one this configuration must honour?
			spec := strOr(st, "cookie", "none")
			if spec == "jar" {
				spec = "issued"
			}
			var src *minted
			switch {
			case spec == "none":
			case strings.HasPrefix(spec, "for:"):
				src = perKey[strings.TrimPrefix(spec, "for:")]
			case strings.HasPrefix(spec, "old:"): // issued earlier by the 'from' codec of a fallback chain
				k := strings.TrimPrefix(spec, "old:")
				if len(parts) == 2 && s.tab.base[k][1] != "" {
					src = &minted{value: newCookieValue(parts[0]).Get(s.tab.url(k, varOf[k])), key: k, at: verifhook.Now(), by: parts[0]}
				}
			case strings.HasPrefix(spec, "otherkey"):
				if jar != nil {
					src = &minted{value: newCookieValueKey(sticky, true).Get(s.tab.url(jar.key, varOf[jar.key])), key: jar.key, at: verifhook.Now(), by: "foreign"}
				}
			default:
				src = jar
			}
			ck, ckfree, value := "", false, ""
			if spec == "garbage" {
				value = "Zm9v!!not-a-cookie"
			} else if strings.HasPrefix(spec, "rand:") { // well-formed alphabet, arbitrary length, never issued by anyone
				n, _ := strconv.Atoi(strings.TrimPrefix(spec, "rand:"))
				const alpha = "ABCDEFGHIJKLMNOPQRSTUVWXYZabcdefghijklmnopqrstuvwxyz0123456789-_"
				bs := make([]byte, n)
				for i := range bs {
					bs[i] = alpha[(i*7+n*13+int(seed))%len(alpha)]
				}
				value = string(bs)
				for _, p := range parts {
					if p == "raw" || p == "" {
						ckfree = true
					}
				}
			} else if src != nil {
				value = src.value
				valid := src.by != "foreign"
				switch spec {
				case "trunc":
					if len(value) > 3 {
						value = value[:len(value)-3]
					}
					valid = false
				case "flip":
					i := len(value) / 2
					c := byte('A')
					if value[i] == 'A' {
						c = 'B'
					}
					value = value[:i] + string(c) + value[i+1:]
					valid = false
				case "reenc":
					value = strings.ToUpper(value)
					valid, ckfree = false, true
				default:
					if strings.HasPrefix(spec, "trunc:") { // cut to an arbitrary length
						n, _ := strconv.Atoi(strings.TrimPrefix(spec, "trunc:"))
						if n < len(value) {
							value = value[:n]
							valid = false
						}
					}
				}
				hasRaw := false
				for _, p := range parts {
					hasRaw = hasRaw || p == "raw" || p == ""
				}
				if hasRaw && (strings.HasPrefix(spec, "trunc") || spec == "flip" || strings.HasPrefix(spec, "otherkey")) {
					ckfree = true // an unauthenticated value may still name a member
				}
				if valid && src.by == "aesttl" {
					exp := src.at.Add(stickyTTL)
					now := verifhook.Now()
					if now.After(exp) { // valid up to and including the instant its lifetime ends (as the pinned code reads it)
						valid = false
					}
				}
				if valid && !ckfree {
					ck = src.key
				}
			}
			if value != "" && sticky != "" {
				req.AddCookie(&http.Cookie{Name: "oxysession", Value: value})
			}
			rec := httptest.NewRecorder()
			panicked := false
			func() {
				defer func() {
					if p := recover(); p != nil {
						panicked = true
					}
				}()
				s.handler().ServeHTTP(rec, req)
			}()
			if panicked {
				rec.Code = 0
			}
			setcookie := false
			for _, c := range rec.Result().Cookies() {
				if c.Name == "oxysession" {
					setcookie = true
					jar = &minted{value: c.Value, key: s.h.k, at: verifhook.Now(), by: mintBy}
					perKey[s.h.k] = jar
				}
			}
			tr.Emit(M{"e": "Serve", "status": rec.Code, "hstatus": s.h.status, "invoked": s.h.invoked == 1,
				"ninvoked": s.h.invoked, "k": s.h.k, "v": s.h.v, "mut": s.h.mut, "ck": ck, "ckfree": ckfree,
				"cookie": spec, "setcookie": setcookie, "sticky": sticky, "panicked": panicked, "members": s.members()})
		default:
			fatal("rr: unknown op %v", st)
		}
	}
}

func init() { runners["rr"] = runRR }
