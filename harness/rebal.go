package main

import (
	"net/http"
	"net/http/httptest"
	"time"

	"github.com/vulcand/oxy/v2/roundrobin"
)

type scriptMeter struct {
	rating float64
	ready  bool
}

func (m *scriptMeter) Rating() float64           { return m.rating }
func (m *scriptMeter) Record(int, time.Duration) {}
func (m *scriptMeter) IsReady() bool             { return m.ready }

func runRebal(sc Scenario, tr *Trace, seed int64) {
	freeze()
	tick := time.Duration(numOr(sc.Cfg, "tick_ms", 1000)) * time.Millisecond
	tab := newURLTable(seed + int64(numOr(sc.Cfg, "table", 0)))
	inflightLat := 0
	next := http.HandlerFunc(func(w http.ResponseWriter, _ *http.Request) {
		if inflightLat > 0 { // a slow backend: the clock moves while the request is being proxied
			advance(time.Duration(inflightLat) * tick)
		}
		w.WriteHeader(200)
	})
	rr, err := roundrobin.New(next)
	if err != nil {
		fatal("rr.New: %v", err)
	}
	meters := map[string]*scriptMeter{}
	pending := ""
	rb, err := roundrobin.NewRebalancer(rr,
		roundrobin.RebalancerBackoff(time.Duration(num(sc.Cfg, "backoff"))*tick),
		roundrobin.RebalancerMeter(func() (roundrobin.Meter, error) {
			m := &scriptMeter{ready: true}
			meters[pending] = m
			return m, nil
		}))
	if err != nil {
		fatal("NewRebalancer: %v", err)
	}
	weights := func() []any {
		var out []any
		for _, u := range rb.Servers() {
			k, _ := tab.abstract(u)
			w, _ := rr.ServerWeight(u)
			out = append(out, M{"k": k, "w": w})
		}
		if out == nil {
			out = []any{}
		}
		return out
	}
	tr.Emit(M{"e": "Reset", "scn": sc.ID, "cfg": M{"backoff": num(sc.Cfg, "backoff"), "cap": 4096, "tps": int(time.Second / tick)}})
	for _, st := range sc.Steps {
		switch str(st, "op") {
		case "init":
			for _, p := range list(st, "pool") {
				pm := p.(M)
				pending = str(pm, "k")
				err := rb.UpsertServer(tab.url(pending, 0), roundrobin.Weight(num(pm, "w")))
				tr.Emit(M{"e": "Upsert", "k": pending, "w": num(pm, "w"), "err": err != nil, "weights": weights()})
			}
		case "upsert":
			pending = str(st, "k")
			err := rb.UpsertServer(tab.url(pending, numOr(st, "v", 0)), roundrobin.Weight(num(st, "w")))
			tr.Emit(M{"e": "Upsert", "k": pending, "w": num(st, "w"), "err": err != nil, "weights": weights()})
		case "remove":
			k := str(st, "k")
			err := rb.RemoveServer(tab.url(k, 0))
			if err == nil {
				delete(meters, k)
			}
			tr.Emit(M{"e": "Remove", "k": k, "err": err != nil, "weights": weights()})
		case "adv":
			advance(time.Duration(num(st, "d")) * tick)
			tr.Emit(M{"e": "Adv", "d": num(st, "d")})
		case "req":
			var ms []any
			for _, x := range list(st, "meters") {
				xm := x.(M)
				k := str(xm, "k")
				m := meters[k]
				if m == nil {
					continue
				}
				m.rating, m.ready = float64(num(xm, "r"))/4, boolOr(xm, "ready", true)
				ms = append(ms, M{"k": k, "r": num(xm, "r"), "ready": m.ready})
			}
			// servers the step does not mention keep their previous script
			for k, m := range meters {
				found := false
				for _, x := range ms {
					if x.(M)["k"] == k {
						found = true
					}
				}
				if !found {
					ms = append(ms, M{"k": k, "r": int(m.rating * 4), "ready": m.ready})
				}
			}
			rec := httptest.NewRecorder()
			inflightLat = numOr(st, "lat", 0)
			rb.ServeHTTP(rec, httptest.NewRequest(http.MethodGet, "http://front/", nil))
			if inflightLat > 0 {
				tr.Emit(M{"e": "Adv", "d": inflightLat}) // the request is judged at its completion time
			}
			tr.Emit(M{"e": "Req", "meters": ms, "weights": weights(), "status": rec.Code})
		default:
			fatal("rebal: unknown op %v", st)
		}
	}
}

func init() { runners["rebal"] = runRebal }
