package main

// rebale2e: the rebalancer with its default meter (extension check X02). The scripted terminal handler answers with the
// status the step prescribes for the server that was chosen; nothing is read from the meters.

import (
	"net/http"
	"net/http/httptest"
	"time"

	"github.com/vulcand/oxy/v2/roundrobin"
)

func runRebalE2E(sc Scenario, tr *Trace, seed int64) {
	freeze()
	tick := time.Duration(numOr(sc.Cfg, "tick_ms", 1000)) * time.Millisecond
	tab := newURLTable(seed + int64(numOr(sc.Cfg, "table", 0)))
	var codes M
	served, code := "", 0
	next := http.HandlerFunc(func(w http.ResponseWriter, req *http.Request) {
		k, _ := tab.abstract(req.URL)
		served = k
		code = numOr(codes, k, 200)
		w.WriteHeader(code)
	})
	rr, err := roundrobin.New(next)
	if err != nil {
		fatal("rr.New: %v", err)
	}
	rb, err := roundrobin.NewRebalancer(rr, roundrobin.RebalancerBackoff(time.Duration(num(sc.Cfg, "backoff"))*tick))
	if err != nil {
		fatal("NewRebalancer: %v", err)
	}
	weights := func() []any {
		out := []any{}
		for _, u := range rb.Servers() {
			k, _ := tab.abstract(u)
			w, _ := rr.ServerWeight(u)
			out = append(out, M{"k": k, "w": w})
		}
		return out
	}
	tr.Emit(M{"e": "Reset", "scn": sc.ID, "cfg": M{"backoff": num(sc.Cfg, "backoff"), "cap": 4096, "tps": int(time.Second / tick)}})
	for _, st := range sc.Steps {
		switch str(st, "op") {
		case "upsert":
			err := rb.UpsertServer(tab.url(str(st, "k"), 0), roundrobin.Weight(num(st, "w")))
			tr.Emit(M{"e": "Upsert", "k": str(st, "k"), "w": num(st, "w"), "err": err != nil, "weights": weights()})
		case "remove":
			err := rb.RemoveServer(tab.url(str(st, "k"), 0))
			tr.Emit(M{"e": "Remove", "k": str(st, "k"), "err": err != nil, "weights": weights()})
		case "adv":
			advance(time.Duration(num(st, "d")) * tick)
			tr.Emit(M{"e": "Adv", "d": num(st, "d")})
		case "req":
			codes, _ = st["codes"].(M)
			served, code = "", 0
			rec := httptest.NewRecorder()
			rb.ServeHTTP(rec, httptest.NewRequest(http.MethodGet, "http://front.example.com/x", nil))
			if served == "" {
				tr.Emit(M{"e": "NoServe", "status": rec.Code, "weights": weights()})
				continue
			}
			tr.Emit(M{"e": "Req", "k": served, "code": code, "weights": weights(), "status": rec.Code})
		default:
			fatal("rebale2e: unknown op %v", st)
		}
	}
}

func init() { runners["rebale2e"] = runRebalE2E }
