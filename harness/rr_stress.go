package main

import (
	"math/rand"
	"net/http"
	"net/http/httptest"
	"runtime"
	"sort"
	"sync"

	"github.com/vulcand/oxy/v2/verifhook"
)

// hookLog collects hook events of selected objects; Seq (taken under the object's lock) is the order.
type hookLog struct {
	mu  sync.Mutex
	evs []verifhook.Event
	obj map[any]bool
}

func newHookLog(objs ...any) *hookLog {
	h := &hookLog{obj: map[any]bool{}}
	for _, o := range objs {
		h.obj[o] = true
	}
	verifhook.SetSink(h.sink)
	return h
}

func (h *hookLog) sink(e verifhook.Event) {
	if len(h.obj) > 0 && !h.obj[e.Obj] {
		return
	}
	h.mu.Lock()
	h.evs = append(h.evs, e)
	h.mu.Unlock()
}

func (h *hookLog) stop() []verifhook.Event {
	verifhook.SetSink(nil)
	h.mu.Lock()
	defer h.mu.Unlock()
	sort.Slice(h.evs, func(i, j int) bool { return h.evs[i].Seq < h.evs[j].Seq })
	return h.evs
}

// stressRR: G goroutines select servers (NextServer or ServeHTTP) while an optional
// administration goroutine re-weights, removes and re-adds servers. The combined,
// hook-ordered history goes to the trace.
func stressRR(cfg M, tr *Trace, seed int64) {
	freeze()
	rounds := numOr(cfg, "rounds", 4)
	for round := 0; round < rounds; round++ {
		rng := rand.New(rand.NewSource(seed*1000 + int64(round)))
		sub := M{"subject": "rr", "table": round}
		if round%2 == 1 && boolOr(cfg, "admin", false) {
			sub["sticky"] = "hash" // requests then read the pool (Servers) on their own path
		}
		s := newRRSubject(sub, seed)
		tr.Emit(M{"e": "Reset", "scn": sprintf("stress-%d", round), "cfg": M{"subject": "rr", "sticky": ""}})
		ws := list(cfg, "weights")
		if len(ws) == 0 {
			ws = []any{float64(1 + rng.Intn(5)), float64(1 + rng.Intn(5)), float64(2 * (1 + rng.Intn(3)))}
		}
		for i, w := range ws {
			k := s.tab.keys[i]
			if err := s.upsert(s.tab.url(k, 0), int(w.(float64))); err != nil {
				fatal("stress upsert: %v", err)
			}
			tr.Emit(M{"e": "Upsert", "k": k, "v": 0, "w": int(w.(float64)), "err": false, "members": s.members()})
		}
		s.h.concurrent = true
		hl := newHookLog(s.rr)
		G, K := numOr(cfg, "goroutines", 8), numOr(cfg, "picks", 200)
		admin := boolOr(cfg, "admin", false)
		var wg sync.WaitGroup
		start := make(chan struct{})
		for g := 0; g < G; g++ {
			wg.Add(1)
			go func(g int) {
				defer wg.Done()
				r := rand.New(rand.NewSource(seed + int64(g)*77 + int64(round)))
				<-start
				for i := 0; i < K; i++ {
					if r.Intn(4) == 0 {
						req := httptest.NewRequest(http.MethodGet, "http://front/", nil)
						if s.sticky != nil && r.Intn(2) == 0 {
							req.AddCookie(&http.Cookie{Name: "oxysession", Value: "deadbeef"})
						}
						s.rr.ServeHTTP(httptest.NewRecorder(), req)
					} else {
						s.rr.NextServer()
					}
					if r.Intn(8) == 0 {
						runtime.Gosched()
					}
				}
			}(g)
		}
		stopInspect := make(chan struct{})
		var iw sync.WaitGroup
		if admin {
			// inspection calls from their own goroutines, racing with requests and with the administration
			for ins := 0; ins < 2; ins++ {
				iw.Add(1)
				go func(ins int) {
					defer iw.Done()
					for {
						select {
						case <-stopInspect:
							return
						default:
						}
						for _, u := range s.rr.Servers() {
							_ = u.String()
							s.rr.ServerWeight(u)
						}
						runtime.Gosched()
					}
				}(ins)
			}
			wg.Add(1)
			go func() {
				defer wg.Done()
				<-start
				for i := 0; i < numOr(cfg, "adminops", 30); i++ {
					k := s.tab.keys[rng.Intn(4)]
					switch rng.Intn(3) {
					case 0:
						s.rr.RemoveServer(s.tab.url(k, rng.Intn(2)))
					default:
						s.upsert(s.tab.url(k, rng.Intn(2)), rng.Intn(5))
					}
					s.rr.Servers()
					s.rr.ServerWeight(s.tab.url(k, 0))
					for y := rng.Intn(50); y > 0; y-- {
						runtime.Gosched()
					}
				}
			}()
		}
		close(start)
		wg.Wait()
		close(stopInspect)
		iw.Wait()
		for _, e := range hl.stop() {
			switch e.Ev {
			case "rr.pick":
				if e.Args[2].(string) == "ok" {
					u := mustParse(e.Args[0].(string))
					k, v := s.tab.abstract(u)
					tr.Emit(M{"e": "Pick", "err": "ok", "k": k, "v": v})
				} else {
					tr.Emit(M{"e": "Pick", "err": "err", "k": "", "v": 0})
				}
			case "rr.upsert":
				k, v := s.tab.abstract(mustParse(e.Args[0].(string)))
				tr.Emit(M{"e": "CUpsert", "k": k, "v": v, "w": e.Args[1].(int)})
			case "rr.remove":
				k, v := s.tab.abstract(mustParse(e.Args[0].(string)))
				tr.Emit(M{"e": "CRemove", "k": k, "v": v})
			}
		}
		tr.Emit(M{"e": "Members", "members": s.members()})
	}
}

func init() { stressors["rr"] = stressRR }
