package main

// tracer: the trace middleware (extension check X03). Every step is one exchange through trace.New(handler, buffer, options);
// the records the tracer wrote are parsed back and reported next to the exchange as it was driven.

import (
	"bytes"
	"crypto/tls"
	"encoding/json"
	"net/http"
	"net/http/httptest"
	"strconv"
	"strings"
	"time"

	"github.com/vulcand/oxy/v2/trace"
)

func hdrMap(m M) http.Header {
	h := http.Header{}
	for k, v := range m {
		for _, x := range v.([]any) {
			h[k] = append(h[k], x.(string))
		}
	}
	return h
}

func hdrOut(h http.Header) M {
	out := M{}
	for k, v := range h {
		l := make([]any, len(v))
		for i, x := range v {
			l[i] = x
		}
		out[k] = l
	}
	return out
}

func declared(h http.Header) M {
	v := h.Get("Content-Length")
	n, err := strconv.ParseInt(v, 10, 64)
	if v == "" || err != nil {
		return M{"ok": false, "n": 0}
	}
	return M{"ok": true, "n": int(n)}
}

func runTracer(sc Scenario, tr *Trace, seed int64) {
	freeze()
	var reqNames, respNames []string
	for _, x := range list(sc.Cfg, "req") {
		reqNames = append(reqNames, x.(string))
	}
	for _, x := range list(sc.Cfg, "resp") {
		respNames = append(respNames, x.(string))
	}
	var script M
	h := http.HandlerFunc(func(w http.ResponseWriter, _ *http.Request) {
		for k, v := range hdrMap(script["respHdr"].(M)) {
			w.Header()[k] = v
		}
		if d := numOr(script, "lat", 0); d > 0 {
			advance(time.Duration(d) * time.Millisecond)
		}
		if boolOr(script, "panic", false) {
			panic("scripted")
		}
		if st := numOr(script, "status", 0); st != 0 {
			w.WriteHeader(st)
		}
		w.Write([]byte(strOr(script, "body", "")))
	})
	var buf bytes.Buffer
	t, err := trace.New(h, &buf, trace.RequestHeaders(reqNames...), trace.ResponseHeaders(respNames...))
	if err != nil {
		fatal("trace.New: %v", err)
	}
	names := func(l []string) []any {
		out := []any{}
		for _, x := range l {
			out = append(out, x)
		}
		return out
	}
	canon := M{}
	for _, n := range append(append([]string{}, reqNames...), respNames...) {
		canon[n] = http.CanonicalHeaderKey(n)
	}
	tr.Emit(M{"e": "Reset", "scn": sc.ID, "cfg": M{"req": names(reqNames), "resp": names(respNames), "canon": canon}})
	for _, st := range sc.Steps {
		script = st
		req := httptest.NewRequest(str(st, "method"), str(st, "url"), strings.NewReader(strOr(st, "reqbody", "")))
		req.Header = hdrMap(st["reqHdr"].(M))
		sni := strOr(st, "sni", "")
		req.TLS = nil
		if boolOr(st, "tls", false) {
			req.TLS = &tls.ConnectionState{Version: tls.VersionTLS12, ServerName: sni, CipherSuite: tls.TLS_RSA_WITH_AES_128_CBC_SHA}
		}
		rec := httptest.NewRecorder()
		buf.Reset()
		panicked := false
		func() {
			defer func() {
				if recover() != nil {
					panicked = true
				}
			}()
			t.ServeHTTP(rec, req)
		}()
		// what the handler's exchange was, as driven
		// the response header map as it stands when the handler has returned (the in-memory recorder adds a sniffed
		// Content-Type to it when a body is written without one)
		respHdr := rec.Header().Clone()
		if panicked {
			respHdr = hdrMap(st["respHdr"].(M))
		}
		for k, v := range hdrMap(st["respHdr"].(M)) {
			if strings.Join(respHdr[k], "|") != strings.Join(v, "|") {
				respHdr["X-Harness-Header-Lost"] = []string{k}
			}
		}
		x := M{"method": str(st, "method"), "url": req.URL.String(), "reqHdr": hdrOut(req.Header), "reqCL": declared(req.Header),
			"tls": boolOr(st, "tls", false), "sni": sni, "status": numOr(st, "status", 0), "respHdr": hdrOut(respHdr),
			"respCL": declared(respHdr), "lat": numOr(st, "lat", 0)}
		// the records written
		records := []any{}
		dec := json.NewDecoder(bytes.NewReader(buf.Bytes()))
		for dec.More() {
			var r trace.Record
			if err := dec.Decode(&r); err != nil {
				records = append(records, M{"method": "?undecodable", "url": "", "reqBytes": -1, "reqHeaders": M{}, "tls": false, "sni": "",
					"code": -1, "respBytes": -1, "respHeaders": M{}, "roundtrip": -1})
				break
			}
			rt := int(r.Response.Roundtrip)
			if float64(rt) != r.Response.Roundtrip {
				rt = -2 // not a whole number of milliseconds although the clock only moved in whole milliseconds
			}
			o := M{"method": r.Request.Method, "url": r.Request.URL, "reqBytes": int(r.Request.BodyBytes), "reqHeaders": hdrOut(r.Request.Headers),
				"tls": r.Request.TLS != nil, "sni": "", "code": r.Response.Code, "respBytes": int(r.Response.BodyBytes),
				"respHeaders": hdrOut(r.Response.Headers), "roundtrip": rt}
			if r.Request.TLS != nil {
				o["sni"] = r.Request.TLS.Server
			}
			records = append(records, o)
		}
		wantCode := numOr(st, "status", 0)
		if wantCode == 0 {
			wantCode = 200
		}
		relayed := panicked || (rec.Code == wantCode && rec.Body.String() == strOr(st, "body", "") && respHdr.Get("X-Harness-Header-Lost") == "")
		tr.Emit(M{"e": "Exch", "x": x, "records": records, "panicked": panicked, "relayed": relayed})
	}
}

func init() { runners["tracer"] = runTracer }
