package main

import (
	"bufio"
	"bytes"
	"errors"
	"fmt"
	"io"
	"net"
	"net/http"
	"net/http/httptest"
	"sort"
	"strings"
	"sync/atomic"
	"time"

	"github.com/vulcand/oxy/v2/buffer"
	"github.com/vulcand/oxy/v2/cbreaker"
	"github.com/vulcand/oxy/v2/connlimit"
	"github.com/vulcand/oxy/v2/ratelimit"
	"github.com/vulcand/oxy/v2/roundrobin"
	"github.com/vulcand/oxy/v2/stream"
	"github.com/vulcand/oxy/v2/trace"
	"github.com/vulcand/oxy/v2/utils"
)

// stackHandler is the wrapped handler of the composition tests.
type stackHandler struct {
	script    M
	warm      atomic.Bool
	invoked   atomic.Int64
	flushOK   atomic.Bool
	flushLost atomic.Bool // a Flush the handler made did not reach the bottom writer
	probe     func() bool // (in-memory recorder runs) has the bottom writer been flushed?
	hijackOK  atomic.Bool
}

func (h *stackHandler) ServeHTTP(w http.ResponseWriter, req *http.Request) {
	if h.warm.Load() {
		w.WriteHeader(http.StatusBadGateway)
		return
	}
	h.invoked.Add(1)
	sc := h.script
	if boolOr(sc, "tryhijack", false) {
		// a handler that would like to take the connection over but answers normally when it cannot
		if hj, ok := w.(http.Hijacker); ok {
			if conn, _, err := hj.Hijack(); err == nil {
				conn.Close()
				return
			}
		}
	}
	if boolOr(sc, "hijack", false) {
		hj, ok := w.(http.Hijacker)
		if !ok {
			w.WriteHeader(500)
			return
		}
		conn, rw, err := hj.Hijack()
		if err != nil {
			w.WriteHeader(500)
			return
		}
		h.hijackOK.Store(true)
		rw.WriteString("HTTP/1.1 299 Hijacked\r\nContent-Length: 3\r\nConnection: close\r\n\r\nhij")
		rw.Flush()
		conn.Close()
		return
	}
	if boolOr(sc, "early", false) { // an informational response (103 Early Hints) before the final one
		w.Header().Set("Link", "</style.css>; rel=preload")
		w.WriteHeader(http.StatusEarlyHints)
		w.Header().Del("Link")
	}
	for _, hn := range list(sc, "hdrs") {
		w.Header().Add(hn.(string), "h-"+hn.(string))
	}
	if boolOr(sc, "rawmap", false) { // documented net/http idioms: nil value suppresses an automatic header; keys may be written verbatim
		w.Header()["Date"] = nil
		w.Header()["x-verbatim-key"] = []string{"42"}
	}
	if boolOr(sc, "flushfirst", false) { // a streaming endpoint announces itself: headers and the implicit 200 are pushed out
		// before there is any body (the very first call on the writer is Flush)
		if f, ok := w.(http.Flusher); ok {
			f.Flush()
			h.flushOK.Store(true)
			if h.probe != nil && !h.probe() {
				h.flushLost.Store(true)
			}
		}
	} else if st := numOr(sc, "status", 200); st != 0 {
		w.WriteHeader(st)
	}
	chunks := list(sc, "chunks")
	for i, c := range chunks {
		w.Write(bytes.Repeat([]byte{byte('A' + i%26)}, int(c.(float64))))
		if boolOr(sc, "flush", false) {
			if f, ok := w.(http.Flusher); ok {
				f.Flush()
				h.flushOK.Store(true)
				if h.probe != nil && !h.probe() {
					h.flushLost.Store(true)
				}
			}
		}
	}
}

func buildStack(layers []any, h http.Handler, tick time.Duration) http.Handler {
	cur := h
	for i := len(layers) - 1; i >= 0; i-- {
		l := layers[i].(M)
		name, intervene := str(l, "name"), strOr(l, "mode", "pass") == "intervene"
		var err error
		switch name {
		case "stream":
			cur, err = stream.New(cur)
		case "trace":
			cur, err = trace.New(cur, traceSink{}, trace.RequestHeaders("X-Req"), trace.ResponseHeaders("X-H1"))
		case "connlimit":
			ex, _ := utils.NewExtractor("client.ip")
			max := int64(100)
			if intervene {
				max = 0
			}
			cur, err = connlimit.New(cur, ex, max)
		case "ratelimit":
			ex, _ := utils.NewExtractor("client.ip")
			rs := ratelimit.NewRateSet()
			if intervene {
				rs.Add(time.Hour, 1, 2) // the two warm-up requests use the whole burst
			} else {
				rs.Add(time.Second, 1000, 1000)
			}
			cur, err = ratelimit.New(cur, ex, rs)
		case "cbreaker":
			expr := "NetworkErrorRatio() > 2.0"
			if intervene {
				expr = "NetworkErrorRatio() > 0.5"
			}
			cur, err = cbreaker.New(cur, expr, cbreaker.FallbackDuration(time.Hour))
		case "roundrobin", "rebalancer":
			var rr *roundrobin.RoundRobin
			sticky := boolOr(l, "sticky", false) // session affinity on: the balancer adds its documented cookie
			if sticky && name == "roundrobin" {
				rr, err = roundrobin.New(cur, roundrobin.EnableStickySession(roundrobin.NewStickySession("oxysession")))
			} else {
				rr, err = roundrobin.New(cur)
			}
			if err != nil {
				break
			}
			if name == "rebalancer" {
				var rb *roundrobin.Rebalancer
				if sticky {
					rb, err = roundrobin.NewRebalancer(rr, roundrobin.RebalancerStickySession(roundrobin.NewStickySession("oxysession")))
				} else {
					rb, err = roundrobin.NewRebalancer(rr)
				}
				if err == nil && !intervene {
					err = rb.UpsertServer(mustParse("http://10.7.0.1:8080/base"))
				}
				cur = rb
			} else {
				if !intervene {
					err = rr.UpsertServer(mustParse("http://10.7.0.1:8080/base"))
				}
				cur = rr
			}
		case "buffer":
			if intervene {
				cur, err = buffer.New(cur, buffer.MaxRequestBodyBytes(1))
			} else {
				// a retry expression that is false for everything the scripted handler answers (no 502/504, first attempt only)
				cur, err = buffer.New(cur, buffer.MemRequestBodyBytes(8), buffer.MemResponseBodyBytes(8),
					buffer.Retry(`IsNetworkError() && Attempts() <= 2`))
			}
		default:
			fatal("stack: unknown layer %q", name)
		}
		if err != nil {
			fatal("stack: building %s: %v", name, err)
		}
	}
	return cur
}

// traceSink is where the tracer writes its records: it works, or (when the step says so) fails like a full disk or a closed
// log pipe would - none of the tracer's business with the exchange it wraps.
var traceSinkFails atomic.Bool

type traceSink struct{}

func (traceSink) Write(p []byte) (int, error) {
	if traceSinkFails.Load() {
		return 0, errors.New("trace sink: no space left on device")
	}
	return len(p), nil
}

type respView struct {
	status int
	hdr    http.Header
	body   []byte
	err    string
}

// the Cookie header the client sends with every request of the step ("" = none)
var stackCookie string

func doReq(url string, body string) respView {
	req, _ := http.NewRequest(http.MethodPost, url+"/probe/path?q=1", strings.NewReader(body))
	req.Header.Set("X-Req", "1")
	if stackCookie != "" {
		req.Header.Set("Cookie", stackCookie)
	}
	tr := &http.Transport{DisableKeepAlives: true}
	resp, err := tr.RoundTrip(req)
	if err != nil {
		return respView{err: err.Error()}
	}
	defer resp.Body.Close()
	data, err := io.ReadAll(resp.Body)
	v := respView{status: resp.StatusCode, hdr: resp.Header, body: data}
	if err != nil {
		v.err = err.Error()
	}
	return v
}

func runStack(sc Scenario, tr *Trace, seed int64) {
	freeze()
	tr.Emit(M{"e": "Reset", "scn": sc.ID, "cfg": M{}})
	for _, st := range sc.Steps {
		layers := list(st, "layers")
		script := st["script"].(M)
		traceSinkFails.Store(boolOr(st, "sinkfail", false))
		stackCookie = strOr(st, "cookie", "")
		// oracle: the bare handler on an identical server (or an identical in-memory recorder)
		bareH := &stackHandler{script: script}
		h := &stackHandler{script: script}
		top := buildStack(layers, h, time.Second)
		var bare, got respView
		if strOr(st, "via", "server") == "recorder" {
			direct := func(hh http.Handler) respView {
				req := httptest.NewRequest(http.MethodPost, "http://front.example.com/probe/path?q=1", strings.NewReader("12345"))
				req.Header.Set("X-Req", "1")
				if stackCookie != "" {
					req.Header.Set("Cookie", stackCookie)
				}
				rec := httptest.NewRecorder()
				if boolOr(st, "preset", false) {
					// something in front of the stack (a session or CSRF wrapper, an outer balancer) has already put
					// headers on the response: a transparent stack leaves them there
					rec.Header().Add("Set-Cookie", "session=abc123; Path=/; HttpOnly")
					rec.Header().Add("Set-Cookie", "csrf=t0k3n")
					rec.Header().Set("X-Outer", "front")
				}
				v := respView{}
				if sh, ok := hh.(*stackHandler); ok {
					sh.probe = func() bool { return rec.Flushed }
				} else {
					h.probe = func() bool { return rec.Flushed }
				}
				func() {
					defer func() {
						if p := recover(); p != nil {
							v.err = fmt.Sprint(p)
						}
					}()
					hh.ServeHTTP(rec, req)
				}()
				if v.err == "" {
					v.status, v.hdr, v.body = rec.Code, rec.Header(), rec.Body.Bytes()
				}
				return v
			}
			bare = direct(bareH)
			h.warm.Store(true)
			direct(top)
			direct(top)
			h.warm.Store(false)
			got = direct(top)
		} else {
			bareSrv := httptest.NewServer(bareH)
			bare = doReq(bareSrv.URL, "12345")
			bareSrv.Close()
			srv := httptest.NewServer(top)
			h.warm.Store(true)
			doReq(srv.URL, "12345")
			doReq(srv.URL, "12345")
			h.warm.Store(false)
			got = doReq(srv.URL, "12345")
			srv.Close()
		}
		// header comparison: everything the bare handler's response has must be there unchanged; what is added must be documented
		hdrsEq, extraOK := true, true
		skip := map[string]bool{"Date": true, "Content-Length": true, "Transfer-Encoding": true, "Connection": true, "Content-Type": bare.hdr.Get("Content-Type") == ""}
		if strOr(st, "via", "server") == "recorder" {
			// the in-memory recorder sniffs a Content-Type only when the first Write comes before WriteHeader: an
			// artefact of the recorder, not of the stack - compare the header only when the script sets it itself
			scripted := false
			for _, hn := range list(script, "hdrs") {
				scripted = scripted || hn.(string) == "Content-Type"
			}
			if !scripted {
				skip["Content-Type"] = true
			}
		}
		for k, v := range bare.hdr {
			if skip[k] {
				continue
			}
			if k == "Set-Cookie" && boolOr(st, "preset", false) {
				// cookies may be ADDED (a sticky balancer's documented cookie); the ones already there stay, in order
				i := 0
				for _, gv := range got.hdr[k] {
					if i < len(v) && gv == v[i] {
						i++
					}
				}
				if i != len(v) {
					hdrsEq = false
				}
				continue
			}
			if strings.Join(got.hdr[k], "|") != strings.Join(v, "|") {
				hdrsEq = false
			}
		}
		if boolOr(script, "rawmap", false) {
			// the handler suppressed Date: it must be absent (or present) in both; on the in-memory recorder header keys are
			// visible verbatim and must be relayed verbatim
			if (len(got.hdr["Date"]) > 0) != (len(bare.hdr["Date"]) > 0) {
				hdrsEq = false
			}
			if strOr(st, "via", "server") == "recorder" {
				for k, v := range bare.hdr {
					if skip[k] && k != "Date" {
						continue
					}
					if gv, ok := got.hdr[k]; !ok || (v == nil) != (gv == nil) {
						hdrsEq = false
					}
				}
			}
		}
		var extra []string
		for k := range got.hdr {
			if _, ok := bare.hdr[k]; !ok && !skip[k] {
				extra = append(extra, k)
				if k != "Set-Cookie" {
					extraOK = false
				}
			}
		}
		sort.Strings(extra)
		ls := make([]any, len(layers))
		for i, l := range layers {
			ls[i] = M{"name": str(l.(M), "name"), "mode": strOr(l.(M), "mode", "pass")}
		}
		tr.Emit(M{"e": "Stack", "layers": ls, "script": M{"status": numOr(script, "status", 200), "flush": boolOr(script, "flush", false), "hijack": boolOr(script, "hijack", false)},
			"bare": M{"status": bare.status, "len": len(bare.body)}, "nchunks": len(list(script, "chunks")), "status": got.status, "hdrsEq": hdrsEq, "extraHdrsOK": extraOK,
			"extra": strings.Join(extra, ","), "bodyEq": bytes.Equal(got.body, bare.body), "invoked": h.invoked.Load(),
			"flushOK": h.flushOK.Load(), "flushReached": !h.flushLost.Load(), "flushfirst": boolOr(script, "flushfirst", false), "hijackOK": h.hijackOK.Load() && got.status == 299 && string(got.body) == "hij",
			"panicked": got.err != "" && got.status == 0, "err": got.err})
	}
	_ = bufio.NewReader
	_ = net.Dial
	_ = fmt.Sprint
}

func init() { runners["stack"] = runStack }
