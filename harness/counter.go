package main

import (
	"time"

	"github.com/vulcand/oxy/v2/memmetrics"
)

// runCounter drives a RatioCounter (two RollingCounters a/b) or a single RollingCounter (only "a" used).
func runCounter(sc Scenario, tr *Trace, seed int64) {
	freeze()
	tick := time.Duration(numOr(sc.Cfg, "tick_ms", 500)) * time.Millisecond
	if ns := numOr(sc.Cfg, "tick_ns", 0); ns > 0 {
		tick = time.Duration(ns)
	}
	n, r := num(sc.Cfg, "n"), num(sc.Cfg, "r")
	res := time.Duration(r) * tick
	a, err := memmetrics.NewCounter(n, res)
	if err != nil {
		fatal("NewCounter: %v", err)
	}
	rc, err := memmetrics.NewRatioCounter(n, res)
	if err != nil {
		fatal("NewRatioCounter: %v", err)
	}
	useRatio := strOr(sc.Cfg, "kind", "ratio") == "ratio"
	var snap *memmetrics.RollingCounter // kind "counter": a clone of a, from then on used side by side with it as counter "b"
	// offset of the frozen origin inside a resolution step (Time.Truncate works from the zero time)
	off := int(T0.Sub(T0.Truncate(res)) / tick)
	tr.Emit(M{"e": "Reset", "scn": sc.ID, "cfg": M{"n": n, "r": r, "tps": int(time.Second / tick), "off": off}})
	_ = off
	for _, st := range sc.Steps {
		switch str(st, "op") {
		case "adv":
			d := num(st, "d")
			advance(time.Duration(d) * tick)
			tr.Emit(M{"e": "Adv", "d": d})
		case "inc":
			v, which := numOr(st, "v", 1), strOr(st, "which", "a")
			if useRatio {
				if which == "a" {
					rc.IncA(v)
				} else {
					rc.IncB(v)
				}
			} else if which == "b" && snap != nil {
				snap.Inc(v)
			} else {
				which = "a"
				a.Inc(v)
			}
			tr.Emit(M{"e": "Inc", "v": v, "which": which})
		case "count":
			if useRatio {
				ca, cb := rc.CountA(), rc.CountB()
				ratio := rc.Ratio()
				want := 0.0
				if ca+cb != 0 {
					want = float64(ca) / float64(ca+cb)
				}
				tr.Emit(M{"e": "Count", "ca": ca, "cb": cb, "rok": ratio == want})
			} else {
				cb := int64(0)
				if snap != nil {
					cb = snap.Count()
				}
				tr.Emit(M{"e": "Count", "ca": a.Count(), "cb": cb, "rok": true})
			}
		case "clone": // b becomes a clone of a (plain counters only)
			if useRatio {
				continue
			}
			snap = a.Clone()
			tr.Emit(M{"e": "Clone"})
		case "reset":
			if useRatio {
				rc.Reset()
			} else {
				a.Reset()
				snap = nil
			}
			tr.Emit(M{"e": "CReset"})
		default:
			fatal("counter: unknown op %v", st)
		}
	}
}

func init() { runners["counter"] = runCounter }
