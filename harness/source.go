package main

import (
	"net"
	"net/http"
	"net/http/httptest"

	"github.com/vulcand/oxy/v2/utils"
)

func runSource(sc Scenario, tr *Trace, seed int64) {
	tr.Emit(M{"e": "Reset", "scn": sc.ID, "cfg": M{}})
	for _, st := range sc.Steps {
		switch str(st, "op") {
		case "new":
			_, err := utils.NewExtractor(str(st, "variable"))
			tr.Emit(M{"e": "New", "variable": str(st, "variable"), "supported": boolOr(st, "supported", false), "err": err != nil})
		case "extract":
			variable := str(st, "variable")
			ex, err := utils.NewExtractor(variable)
			if err != nil {
				fatal("NewExtractor(%q): %v", variable, err)
			}
			req := httptest.NewRequest(http.MethodGet, "http://front.example.com/", nil)
			kind := str(st, "kind")
			if extra, ok := st["extra"].(M); ok { // other headers the client chose to send: they say nothing about the source
				for name, v := range extra {
					req.Header.Set(name, v.(string))
				}
			}
			ev := M{"e": "Extract", "kind": kind, "aid": "", "ip": "", "ipzone": "", "want": "", "wellformed": true}
			switch kind {
			case "ip":
				if raw, ok := st["raw"]; ok {
					req.RemoteAddr = raw.(string)
					ev["wellformed"] = false
				} else {
					ip, zone, port := str(st, "ip"), strOr(st, "zone", ""), strOr(st, "port", "1234")
					hostpart := ip
					if zone != "" {
						hostpart = ip + "%" + zone
					}
					req.RemoteAddr = net.JoinHostPort(hostpart, port) // the form net/http produces
					ev["aid"], ev["ip"], ev["ipzone"] = hostpart, ip, hostpart
				}
			case "host":
				req.Host = str(st, "host")
				ev["want"] = str(st, "host")
			case "header":
				if !boolOr(st, "absent", false) {
					req.Header.Set(str(st, "name"), str(st, "value"))
				} else {
					req.Header.Del(str(st, "name"))
				}
				ev["want"] = str(st, "value")
			}
			var token string
			var amount int64
			var xerr error
			panicked := false
			func() {
				defer func() {
					if p := recover(); p != nil {
						panicked = true
					}
				}()
				token, amount, xerr = ex.Extract(req)
			}()
			ev["token"], ev["amount"], ev["err"], ev["panicked"], ev["remote"] = token, amount, xerr != nil, panicked, req.RemoteAddr
			tr.Emit(ev)
		default:
			fatal("source: unknown op %v", st)
		}
	}
}

func init() { runners["source"] = runSource }
