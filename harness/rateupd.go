package main

// rateupd: rate sets that change between the requests of a source (extension check X01).
// level "http": TokenLimiter with an ExtractRates option that picks a named set per request;
// level "set":  TokenBucketSet.Update(set) followed by Consume, tokens read back per period.

import (
	"errors"
	"net/http"
	"net/http/httptest"
	"sort"
	"strconv"
	"time"

	"github.com/vulcand/oxy/v2/ratelimit"
	"github.com/vulcand/oxy/v2/utils"
)

func runRateUpd(sc Scenario, tr *Trace, seed int64) {
	freeze()
	tick := time.Duration(numOr(sc.Cfg, "tick_ms", 100)) * time.Millisecond
	tps := int(time.Second / tick)
	level := strOr(sc.Cfg, "level", "http")
	table := sc.Cfg["ratesets"].(M)
	def := str(sc.Cfg, "default")
	sorted := func(name string) []M {
		var rs []M
		for _, r := range table[name].([]any) {
			rs = append(rs, r.(M))
		}
		sort.Slice(rs, func(i, j int) bool { return num(rs[i], "p") < num(rs[j], "p") })
		return rs
	}
	mk := func(name string) *ratelimit.RateSet {
		rs := ratelimit.NewRateSet()
		for _, r := range sorted(name) {
			if err := rs.Add(time.Duration(num(r, "p"))*tick, int64(num(r, "a")), int64(num(r, "b"))); err != nil {
				fatal("rateset %s: %v", name, err)
			}
		}
		return rs
	}
	invoked := 0
	var tl *ratelimit.TokenLimiter
	var set *ratelimit.TokenBucketSet
	if level == "http" {
		ex := utils.ExtractorFunc(func(req *http.Request) (string, int64, error) {
			n, _ := strconv.Atoi(req.Header.Get("X-Amount"))
			return req.Header.Get("X-Src"), int64(n), nil
		})
		rex := ratelimit.RateExtractorFunc(func(req *http.Request) (*ratelimit.RateSet, error) {
			switch name := req.Header.Get("X-Rates"); name {
			case "err":
				return nil, errors.New("no rates for you")
			case "empty", "":
				return ratelimit.NewRateSet(), nil
			default:
				return mk(name), nil
			}
		})
		h := http.HandlerFunc(func(w http.ResponseWriter, _ *http.Request) { invoked++; w.WriteHeader(200) })
		var err error
		tl, err = ratelimit.New(h, ex, mk(def), ratelimit.Capacity(numOr(sc.Cfg, "cap", 65536)), ratelimit.ExtractRates(rex))
		if err != nil {
			fatal("ratelimit.New: %v", err)
		}
	}
	cfg := M{"tps": tps, "cap": numOr(sc.Cfg, "cap", 65536), "level": level, "default": def}
	sets := M{}
	for name := range table {
		var l []any
		for _, r := range sorted(name) {
			l = append(l, M{"p": num(r, "p"), "a": num(r, "a"), "b": num(r, "b")})
		}
		sets[name] = l
	}
	cfg["ratesets"] = sets
	tr.Emit(M{"e": "Reset", "scn": sc.ID, "cfg": cfg})
	now := 0
	toTicks := func(d time.Duration) (int, bool) {
		if d%tick != 0 {
			return int(d/tick) + 1, false
		}
		return int(d / tick), true
	}
	for _, st := range sc.Steps {
		switch str(st, "op") {
		case "adv":
			d := num(st, "d")
			if d <= 0 {
				continue
			}
			advance(time.Duration(d) * tick)
			now += d
			tr.Emit(M{"e": "Adv", "d": d, "t": now})
		case "req":
			src, n, rs := str(st, "src"), numOr(st, "n", 1), strOr(st, "rs", "")
			eff := rs
			if rs == "err" || rs == "empty" || rs == "" {
				eff = def
			}
			ev := M{"e": "Req", "src": src, "n": n, "rs": eff, "asked": rs, "t": now, "delay": -1, "whole": true, "after": []any{}, "status": 0}
			if level == "set" {
				if set == nil {
					set = ratelimit.NewTokenBucketSet(mk(eff))
				} else {
					set.Update(mk(eff))
				}
				d, err := set.Consume(int64(n))
				switch {
				case err != nil:
					ev["out"] = "error"
				case d > 0:
					ev["out"] = "limit"
					ev["delay"], ev["whole"] = toTicks(d)
				default:
					ev["out"], ev["delay"] = "ok", 0
				}
				m := set.VerifTokens()
				ps := make([]int64, 0, len(m))
				for p := range m {
					ps = append(ps, p)
				}
				sort.Slice(ps, func(i, j int) bool { return ps[i] < ps[j] })
				var after, periods []any
				for _, p := range ps {
					after = append(after, m[p])
					periods = append(periods, int(time.Duration(p)/tick))
				}
				ev["after"], ev["periods"] = after, periods
				ev["maxperiod"] = int(set.GetMaxPeriod() / tick)
			} else {
				req := httptest.NewRequest(http.MethodGet, "http://front.example.com/", nil)
				req.Header.Set("X-Src", src)
				req.Header.Set("X-Amount", strconv.Itoa(n))
				if rs != "" {
					req.Header.Set("X-Rates", rs)
				}
				rec := httptest.NewRecorder()
				invoked = 0
				tl.ServeHTTP(rec, req)
				ev["status"] = rec.Code
				switch {
				case rec.Code == 200 && invoked == 1:
					ev["out"], ev["delay"] = "ok", 0
				case rec.Code == http.StatusTooManyRequests:
					ev["out"] = "limit"
					if v := rec.Header().Get("X-Retry-In"); v != "" {
						d, err := time.ParseDuration(v)
						if err != nil {
							fatal("X-Retry-In %q: %v", v, err)
						}
						ev["delay"], ev["whole"] = toTicks(d)
					}
				default:
					ev["out"] = "error"
				}
				ev["periods"], ev["maxperiod"] = []any{}, 0
			}
			tr.Emit(ev)
		default:
			fatal("rateupd: unknown op %v", st)
		}
	}
}

func init() { runners["rateupd"] = runRateUpd }
