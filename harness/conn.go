package main

import (
	"context"
	"fmt"
	"math/rand"
	"net/http"
	"net/http/httptest"
	"runtime"
	"strings"
	"sync"
	"time"

	"github.com/vulcand/oxy/v2/connlimit"
	"github.com/vulcand/oxy/v2/utils"
)

// gateHandler is the protected handler of the interleaving drivers: it reports that a request
// entered, measures the real concurrency per source, and blocks until the scenario ends the request.
type gateHandler struct {
	mu         sync.Mutex
	entered    chan string
	gates      map[string]chan string
	running    map[string]int
	maxRunning int
	invoked    map[string]int
}

func newGateHandler() *gateHandler {
	return &gateHandler{entered: make(chan string, 64), gates: map[string]chan string{}, running: map[string]int{}, invoked: map[string]int{}}
}

var errSentinel = fmt.Errorf("scenario panic")

func (h *gateHandler) ServeHTTP(w http.ResponseWriter, req *http.Request) {
	id, src := req.Header.Get("X-Req"), req.Header.Get("X-Src")
	h.mu.Lock()
	h.running[src]++
	h.invoked[id]++
	if h.running[src] > h.maxRunning {
		h.maxRunning = h.running[src]
	}
	g := h.gates[id]
	h.mu.Unlock()
	h.entered <- id
	how := <-g
	h.mu.Lock()
	h.running[src]--
	h.mu.Unlock()
	switch how {
	case "panic":
		panic(errSentinel)
	default:
		code := 200
		fmt.Sscanf(how, "status:%d", &code)
		w.WriteHeader(code)
	}
}

func (h *gateHandler) cur(src string) int {
	h.mu.Lock()
	defer h.mu.Unlock()
	return h.running[src]
}

type reqResult struct {
	status   int
	panicked bool
	ctype    string
	location string
	body     string
}

// inflightDriver starts and finishes requests on any handler at scenario granularity.
type inflightDriver struct {
	h     http.Handler
	gate  *gateHandler
	done  map[string]chan reqResult
	srcOf map[string]string
	mkReq func(id, src string) *http.Request

	precancel  bool // the next request arrives with a cancelled context
	hostTokens bool // sources are told apart by the Host header
}

func newInflightDriver(h http.Handler, g *gateHandler) *inflightDriver {
	return &inflightDriver{h: h, gate: g, done: map[string]chan reqResult{}, srcOf: map[string]string{}}
}

func srcAddr(src string) string {
	// stable per-source peer address: s1 -> 10.9.0.1
	n := 0
	fmt.Sscanf(src, "s%d", &n)
	return fmt.Sprintf("10.9.%d.%d:%d", n/250, n%250+1, 40000+n)
}

// start launches the request and waits until it is inside the protected handler or was answered.
func (d *inflightDriver) start(id, src string) (admitted bool, res reqResult) {
	req := httptest.NewRequest(http.MethodGet, "http://front.example.com/", nil)
	if d.precancel {
		// the client went away (or a deadline expired) before the request reached the middleware
		ctx, cancel := context.WithCancel(req.Context())
		cancel()
		req = req.WithContext(ctx)
		d.precancel = false
	}
	if d.mkReq != nil {
		req = d.mkReq(id, src)
	}
	req.Header.Set("X-Req", id)
	req.Header.Set("X-Src", src)
	// the token the limiter sees when the scenario asks for another spelling of the source (capitals, dots, a port)
	req.Header.Set("X-Token", "Tenant-"+strings.ToUpper(src)+".Example.COM")
	if d.hostTokens {
		req.Host = "Api-" + strings.ToUpper(src) + ".Example.COM:8443"
	}
	if src == "s1" { // one source is the one whose token is EMPTY (header absent, no Host): a source like any other
		req.Header.Del("X-Token")
		if d.hostTokens {
			req.Host = ""
		}
	}
	if req.RemoteAddr == "" || req.RemoteAddr == "192.0.2.1:1234" {
		req.RemoteAddr = srcAddr(src)
	}
	d.gate.mu.Lock()
	d.gate.gates[id] = make(chan string, 1)
	d.gate.mu.Unlock()
	done := make(chan reqResult, 1)
	d.done[id] = done
	d.srcOf[id] = src
	go func() {
		rec := httptest.NewRecorder()
		defer func() {
			if p := recover(); p != nil {
				done <- reqResult{status: rec.Code, panicked: true}
			}
		}()
		d.h.ServeHTTP(rec, req)
		done <- reqResult{status: rec.Code, ctype: rec.Header().Get("Content-Type"), location: rec.Header().Get("Location"), body: rec.Body.String()}
	}()
	for {
		select {
		case e := <-d.gate.entered:
			if e == id {
				return true, reqResult{}
			}
			fatal("unexpected request %s entered the handler while starting %s", e, id)
		case r := <-done:
			done <- r
			return false, r
		}
	}
}

// finish lets the request end and waits for ServeHTTP to return (or panic).
func (d *inflightDriver) finish(id, how string) (reqResult, bool) {
	d.gate.mu.Lock()
	g := d.gate.gates[id]
	d.gate.mu.Unlock()
	if g == nil {
		return reqResult{}, false
	}
	g <- how
	select {
	case r := <-d.done[id]:
		return r, true
	case <-time.After(20 * time.Second):
		return reqResult{}, false
	}
}

func newConnLimiter(cfg M, next http.Handler) *connlimit.ConnLimiter {
	variable := "request.header.X-Src"
	switch strOr(cfg, "extract", "header") {
	case "ip":
		variable = "client.ip"
	case "token":
		variable = "request.header.X-Token"
	case "host":
		variable = "request.host"
	}
	ex, err := utils.NewExtractor(variable)
	if err != nil {
		fatal("extractor: %v", err)
	}
	cl, err := connlimit.New(next, ex, int64(num(cfg, "max")), connlimit.Logger(jitterLogger{}))
	if err != nil {
		fatal("connlimit.New: %v", err)
	}
	return cl
}

func runConn(sc Scenario, tr *Trace, seed int64) {
	freeze()
	g := newGateHandler()
	cl := newConnLimiter(sc.Cfg, g)
	d := newInflightDriver(cl, g)
	d.hostTokens = strOr(sc.Cfg, "extract", "header") == "host"
	tr.Emit(M{"e": "Reset", "scn": sc.ID, "cfg": M{"max": num(sc.Cfg, "max")}})
	state := map[string]string{}
	for _, st := range sc.Steps {
		id := fmt.Sprint(st["r"])
		switch str(st, "op") {
		case "start":
			src := str(st, "src")
			d.precancel = boolOr(st, "precancel", false)
			adm, res := d.start(id, src)
			if adm {
				state[id] = "run"
			} else {
				state[id] = "rej"
			}
			tr.Emit(M{"e": "Start", "r": id, "src": src, "admitted": adm, "status": res.status, "running": g.cur(src)})
		case "finish":
			if state[id] != "run" {
				continue
			}
			res, ok := d.finish(id, strOr(st, "how", "return"))
			state[id] = "done"
			tr.Emit(M{"e": "Finish", "r": id, "src": d.srcOf[id], "returned": ok, "panicked": res.panicked, "status": res.status})
		case "quiesce":
			tr.Emit(M{"e": "Quiesce", "maxrunning": g.maxRunning})
		default:
			fatal("conn: unknown op %v", st)
		}
	}
	// never leave goroutines behind
	for id, s := range state {
		if s == "run" {
			d.finish(id, "return")
		}
	}
}

// stressConn: goroutines of random sources hammer the limiter; the hook-ordered critical sections go to the trace.
func stressConn(cfg M, tr *Trace, seed int64) {
	freeze()
	rounds := numOr(cfg, "rounds", 3)
	for round := 0; round < rounds; round++ {
		max := 1 + (round+int(seed))%3
		var mu sync.Mutex
		running, maxRunning := map[string]int{}, 0
		h := http.HandlerFunc(func(w http.ResponseWriter, req *http.Request) {
			src := req.Header.Get("X-Src")
			mu.Lock()
			running[src]++
			if running[src] > maxRunning {
				maxRunning = running[src]
			}
			mu.Unlock()
			for i := 0; i < 3; i++ {
				runtime.Gosched()
			}
			mu.Lock()
			running[src]--
			mu.Unlock()
			if req.Header.Get("X-Panic") == "1" {
				panic(errSentinel)
			}
		})
		cl := newConnLimiter(M{"max": max}, h)
		tr.Emit(M{"e": "Reset", "scn": sprintf("stress-%d", round), "cfg": M{"max": max}})
		hl := newHookLog(cl)
		var wg sync.WaitGroup
		G, K := numOr(cfg, "goroutines", 12), numOr(cfg, "requests", 150)
		for gi := 0; gi < G; gi++ {
			wg.Add(1)
			go func(gi int) {
				defer wg.Done()
				r := rand.New(rand.NewSource(seed*31 + int64(gi) + int64(round)*1000))
				for i := 0; i < K; i++ {
					req := httptest.NewRequest(http.MethodGet, "http://front/", nil)
					req.Header.Set("X-Src", sprintf("s%d", r.Intn(3)))
					if r.Intn(5) == 0 {
						req.Header.Set("X-Panic", "1")
					}
					func() {
						defer func() { recover() }()
						cl.ServeHTTP(httptest.NewRecorder(), req)
					}()
				}
			}(gi)
		}
		wg.Wait()
		for _, e := range hl.stop() {
			switch e.Ev {
			case "cl.acquire":
				tr.Emit(M{"e": "CAcquire", "src": e.Args[0], "after": e.Args[2]})
			case "cl.reject":
				tr.Emit(M{"e": "CReject", "src": e.Args[0], "cur": e.Args[2]})
			case "cl.release":
				tr.Emit(M{"e": "CRelease", "src": e.Args[0], "after": e.Args[2]})
			}
		}
		tr.Emit(M{"e": "Quiesce", "maxrunning": maxRunning})
	}
}

func init() {
	runners["conn"] = runConn
	stressors["conn"] = stressConn
}
