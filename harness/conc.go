package main

import (
	"bytes"
	"encoding/json"
	"github.com/vulcand/oxy/v2/verifhook"
	"io"
	"math/rand"
	"net/http"
	"net/http/httptest"
	"runtime"
	"strconv"
	"sync"
	"sync/atomic"
	"time"

	"github.com/vulcand/oxy/v2/buffer"
	"github.com/vulcand/oxy/v2/cbreaker"
	"github.com/vulcand/oxy/v2/connlimit"
	"github.com/vulcand/oxy/v2/memmetrics"
	"github.com/vulcand/oxy/v2/ratelimit"
	"github.com/vulcand/oxy/v2/roundrobin"
	"github.com/vulcand/oxy/v2/trace"
	"github.com/vulcand/oxy/v2/utils"
)

func parallel(g int, f func(i int, r *rand.Rand), seed int64) {
	var wg sync.WaitGroup
	start := make(chan struct{})
	for i := 0; i < g; i++ {
		wg.Add(1)
		go func(i int) {
			defer wg.Done()
			r := rand.New(rand.NewSource(seed*131 + int64(i)))
			<-start
			f(i, r)
		}(i)
	}
	close(start)
	wg.Wait()
}

// stressMetrics: RTMetrics.Record from many goroutines while others read every inspection call.
func stressMetrics(cfg M, tr *Trace, seed int64) {
	freeze()
	tr.Emit(M{"e": "Reset", "scn": "metrics", "cfg": M{}})
	m, err := memmetrics.NewRTMetrics()
	if err != nil {
		fatal("NewRTMetrics: %v", err)
	}
	G, K := numOr(cfg, "goroutines", 8), numOr(cfg, "ops", 400)
	var neterr, c200 atomic.Int64
	parallel(G+3, func(i int, r *rand.Rand) {
		if i >= G { // readers
			for k := 0; k < K; k++ {
				m.NetworkErrorRatio()
				m.ResponseCodeRatio(500, 600, 0, 600)
				m.StatusCodesCounts()
				m.TotalCount()
				m.NetworkErrorCount()
				if k%4 == 0 {
					// what an inspector gets it also reads, after the call has returned (as the breaker's latency predicate does)
					if cp := m.Export(); cp != nil {
						cp.TotalCount()
						cp.NetworkErrorRatio()
						if h, err := cp.LatencyHistogram(); err == nil {
							h.LatencyAtQuantile(50)
						}
					}
					if h, err := m.LatencyHistogram(); err == nil {
						h.LatencyAtQuantile(50)
						runtime.Gosched()
						h.LatencyAtQuantile(99)
						h.ValueAtQuantile(100)
					}
				}
				runtime.Gosched()
			}
			return
		}
		for k := 0; k < K; k++ {
			code := []int{200, 200, 404, 502, 504, 500}[r.Intn(6)]
			if code == 502 || code == 504 {
				neterr.Add(1)
			}
			if code == 200 {
				c200.Add(1)
			}
			m.Record(code, time.Duration(r.Intn(50))*time.Millisecond)
		}
	}, seed)
	tr.Emit(M{"e": "Totals", "what": "RTMetrics.TotalCount", "expect": G * K, "got": m.TotalCount()})
	tr.Emit(M{"e": "Totals", "what": "RTMetrics.NetworkErrorCount", "expect": neterr.Load(), "got": m.NetworkErrorCount()})
	tr.Emit(M{"e": "Totals", "what": "RTMetrics.StatusCodesCounts[200]", "expect": c200.Load(), "got": m.StatusCodesCounts()[200]})
	// first-time paths: a fresh collector per round, all goroutines released together, each recording the same sequence of
	// statuses the collector has never seen (lazily created per-status counters): every status must count every goroutine
	rounds := numOr(cfg, "firsts", 300)
	codes := []int{200, 404, 500, 502, 504, 301, 418}
	worst, sum := int64(G), int64(0)
	for round := 0; round < rounds; round++ {
		fm, err := memmetrics.NewRTMetrics()
		if err != nil {
			fatal("NewRTMetrics: %v", err)
		}
		parallel(G, func(i int, r *rand.Rand) {
			for _, c := range codes {
				fm.Record(c, time.Millisecond)
			}
		}, seed+int64(round))
		counts := fm.StatusCodesCounts()
		for _, c := range codes {
			sum += counts[c]
			if counts[c] < worst {
				worst = counts[c]
			}
		}
	}
	tr.Emit(M{"e": "Totals", "what": "first records of a status: smallest per-status count over all rounds", "expect": G, "got": worst})
	tr.Emit(M{"e": "Totals", "what": "first records of a status: sum of per-status counts", "expect": rounds * G * len(codes), "got": sum})
}

// stressRate: every source has a burst and no refill (frozen clock): exactly burst requests are admitted.
func stressRate(cfg M, tr *Trace, seed int64) {
	freeze()
	tr.Emit(M{"e": "Reset", "scn": "rate", "cfg": M{}})
	burst := numOr(cfg, "burst", 40)
	nsrc := numOr(cfg, "sources", 5)
	// several rounds, each on a fresh limiter: the first requests of every source (where its bucket set is created) race
	rounds := numOr(cfg, "rounds", 30)
	total, worst, most := int64(0), int64(burst), int64(0)
	for round := 0; round < rounds; round++ {
		var ok sync.Map
		h := http.HandlerFunc(func(w http.ResponseWriter, req *http.Request) {
			c, _ := ok.LoadOrStore(req.Header.Get("X-Src"), new(atomic.Int64))
			c.(*atomic.Int64).Add(1)
		})
		ex, _ := utils.NewExtractor("request.header.X-Src")
		rs := ratelimit.NewRateSet()
		rs.Add(time.Hour, 1, int64(burst))
		tlopts := []ratelimit.TokenLimiterOption{ratelimit.Capacity(64), ratelimit.Logger(jitterLogger{})}
		if round%2 == 1 {
			// every other round the rates come from a (slow) per-request rate extractor - user code the limiter calls on
			// every request - that always answers the configured rates: the bound per source is the same
			tlopts = append(tlopts, ratelimit.ExtractRates(ratelimit.RateExtractorFunc(func(*http.Request) (*ratelimit.RateSet, error) {
				runtime.Gosched()
				time.Sleep(20 * time.Microsecond)
				x := ratelimit.NewRateSet()
				x.Add(time.Hour, 1, int64(burst))
				return x, nil
			})))
		}
		tl, err := ratelimit.New(h, ex, rs, tlopts...)
		if err != nil {
			fatal("ratelimit.New: %v", err)
		}
		ops := numOr(cfg, "ops", 200)
		if round > 0 {
			ops = 40
		}
		parallel(numOr(cfg, "goroutines", 12), func(i int, r *rand.Rand) {
			for k := 0; k < ops; k++ {
				req := httptest.NewRequest(http.MethodGet, "http://front/", nil)
				req.Header.Set("X-Src", "s"+strconv.Itoa(r.Intn(nsrc)))
				tl.ServeHTTP(httptest.NewRecorder(), req)
			}
		}, seed+int64(round))
		for s := 0; s < nsrc; s++ {
			c, _ := ok.LoadOrStore("s"+strconv.Itoa(s), new(atomic.Int64))
			n := c.(*atomic.Int64).Load()
			total += n
			if n != int64(burst) && (n > worst || worst == int64(burst)) {
				worst = n
			}
			if n > most {
				most = n
			}
		}
	}
	t1 := M{"e": "Totals", "what": "admitted over all rounds and sources", "expect": rounds * nsrc * burst, "got": total}
	t2 := M{"e": "Totals", "what": "admitted of one source in one round (worst)", "expect": burst, "got": worst}
	tr.Emit(t1)
	tr.Emit(t2)
	if c := strOr(cfg, "clause", ""); c != "" { // the upper bound, on behalf of the property that states it
		tr.Emit(M{"e": "AtMost", "what": "admitted of one source in one round (largest)", "bound": burst, "got": most, "clause": c})
	}
}

// stressTTL: the TTL map used directly by several goroutines (it has its own lock and is usable without the rate limiter's):
// every round an entry is left to expire, then readers (Get) and writers (Increment with a fresh lifetime) hit it together.
// Whatever the interleaving, afterwards the key holds a live entry worth 1 or 2 and nothing panicked.
func stressTTL(cfg M, tr *Trace, seed int64) {
	freeze()
	tr.Emit(M{"e": "Reset", "scn": "ttl", "cfg": M{}})
	rounds := numOr(cfg, "rounds", 3000)
	var panics, present atomic.Int64
	valuesOK := int64(0)
	for round := 0; round < rounds; round++ {
		m := verifhook.NewTTLMap(8)
		m.Set("k", 1, 1)
		m.Set("other", 7, 100)
		advance(2 * time.Second)
		parallel(6, func(i int, r *rand.Rand) {
			defer func() {
				if recover() != nil {
					panics.Add(1)
				}
			}()
			if i < 4 {
				m.Get("k")
			} else {
				m.Increment("k", 1, 100)
			}
		}, seed+int64(round))
		func() {
			defer func() {
				if recover() != nil {
					panics.Add(1)
				}
			}()
			if v, ok, _ := m.GetInt("k"); ok {
				present.Add(1)
				if v == 1 || v == 2 {
					valuesOK++
				}
			}
		}()
	}
	tr.Emit(M{"e": "Totals", "what": "TTL map: rounds in which the re-created entry survived concurrent Get/Increment on an expired one", "expect": rounds, "got": present.Load()})
	tr.Emit(M{"e": "Totals", "what": "TTL map: rounds in which the surviving counter is 1 or 2", "expect": rounds, "got": valuesOK})
	tr.Emit(M{"e": "Totals", "what": "TTL map: panics", "expect": 0, "got": panics.Load()})
}

// stressRebal: requests through a rebalancer with the default code meter while servers are added, re-weighted and removed.
func stressRebal(cfg M, tr *Trace, seed int64) {
	freeze()
	tr.Emit(M{"e": "Reset", "scn": "rebal", "cfg": M{}})
	tab := newURLTable(seed)
	var served atomic.Int64
	h := http.HandlerFunc(func(w http.ResponseWriter, req *http.Request) {
		served.Add(1)
		if req.URL.Host == tab.url("a", 0).Host {
			w.WriteHeader(500)
		}
	})
	rr, _ := roundrobin.New(h, roundrobin.Logger(jitterLogger{}))
	rb, err := roundrobin.NewRebalancer(rr, roundrobin.RebalancerBackoff(time.Millisecond), roundrobin.RebalancerLogger(jitterLogger{}))
	if err != nil {
		fatal("NewRebalancer: %v", err)
	}
	for _, k := range []string{"a", "b", "c"} {
		rb.UpsertServer(tab.url(k, 0))
	}
	var okc, errc atomic.Int64
	G := numOr(cfg, "goroutines", 8)
	parallel(G+2, func(i int, r *rand.Rand) {
		if i == G+1 { // inspection from its own goroutine
			for k := 0; k < 400; k++ {
				for _, u := range rb.Servers() {
					_ = u.String()
				}
				runtime.Gosched()
			}
			return
		}
		if i == G {
			for k := 0; k < 60; k++ {
				key := []string{"b", "c", "d"}[r.Intn(3)]
				switch r.Intn(3) {
				case 0:
					rb.RemoveServer(tab.url(key, 0))
				default:
					rb.UpsertServer(tab.url(key, 0), roundrobin.Weight(1+r.Intn(4)))
				}
				rb.Servers()
				runtime.Gosched()
			}
			return
		}
		for k := 0; k < numOr(cfg, "ops", 200); k++ {
			rec := httptest.NewRecorder()
			rb.ServeHTTP(rec, httptest.NewRequest(http.MethodGet, "http://front/", nil))
			if rec.Code == 200 || rec.Code == 500 {
				okc.Add(1)
			} else {
				errc.Add(1)
			}
			if k%20 == 0 {
				advance(2 * time.Millisecond)
			}
		}
	}, seed)
	tr.Emit(M{"e": "Totals", "what": "handler invocations = forwarded requests", "expect": okc.Load(), "got": served.Load()})
	tr.Emit(M{"e": "Totals", "what": "rebalancer and balancer agree on the pool size", "expect": len(rr.Servers()), "got": len(rb.Servers())})
	minw := 1 << 30
	for _, u := range rr.Servers() {
		if w, _ := rr.ServerWeight(u); w < minw {
			minw = w
		}
	}
	tr.Emit(M{"e": "AtMost", "what": "1 <= every effective weight", "got": 1, "bound": minw})
}

// flipMeter alternates its rating so that the rebalancer keeps adjusting weights.
type flipMeter struct {
	bad  *atomic.Bool
	mine bool
}

func (m *flipMeter) Rating() float64 {
	if m.bad.Load() == m.mine {
		return 0.5
	}
	return 0
}
func (m *flipMeter) Record(int, time.Duration) {}
func (m *flipMeter) IsReady() bool             { return true }

// stressRebalAdmin: every completing request adjusts weights (flapping ratings, tiny back-off) while one administration
// goroutine removes and re-adds a server. A removed server must not be a member until it is added again.
func stressRebalAdmin(cfg M, tr *Trace, seed int64) {
	freeze()
	tr.Emit(M{"e": "Reset", "scn": "rebaladmin", "cfg": M{}})
	tab := newURLTable(seed)
	h := http.HandlerFunc(func(w http.ResponseWriter, _ *http.Request) {})
	rr, _ := roundrobin.New(h)
	var bad atomic.Bool
	n := 0
	rb, err := roundrobin.NewRebalancer(rr, roundrobin.RebalancerBackoff(time.Nanosecond),
		roundrobin.RebalancerMeter(func() (roundrobin.Meter, error) {
			n++
			return &flipMeter{bad: &bad, mine: n%2 == 0}, nil
		}))
	if err != nil {
		fatal("NewRebalancer: %v", err)
	}
	for _, k := range []string{"a", "b", "c", "d"} {
		rb.UpsertServer(tab.url(k, 0))
	}
	var ghosts atomic.Int64
	var stop atomic.Bool
	G := numOr(cfg, "goroutines", 8)
	parallel(G+1, func(i int, r *rand.Rand) {
		if i == G {
			x := tab.url("d", 0)
			present := func() bool {
				for _, u := range rb.Servers() {
					if u.Host == x.Host && u.Path == x.Path && u.Scheme == x.Scheme {
						return true
					}
				}
				return false
			}
			for k := 0; k < numOr(cfg, "adminops", 1500); k++ {
				if err := rb.RemoveServer(x); err == nil {
					for y := 0; y < 3; y++ {
						runtime.Gosched()
					}
					if present() {
						ghosts.Add(1)
						rb.RemoveServer(x)
						rr.RemoveServer(x)
					}
				}
				rb.UpsertServer(x)
				runtime.Gosched()
			}
			stop.Store(true)
			return
		}
		for k := 0; !stop.Load(); k++ {
			advance(time.Microsecond)
			if k%7 == 0 {
				bad.Store(!bad.Load())
			}
			rb.ServeHTTP(httptest.NewRecorder(), httptest.NewRequest(http.MethodGet, "http://front/", nil))
		}
	}, seed)
	tr.Emit(M{"e": "Totals", "what": "removed server still a pool member", "expect": 0, "got": ghosts.Load()})
}

// lockedWriter: a sink whose individual Write calls are atomic (a file, a pipe, a locked buffer) - the user's writer is
// environment; what belongs to the tracer is that one record reaches it as one piece.
type lockedWriter struct {
	mu  sync.Mutex
	n   int
	buf bytes.Buffer
}

func (l *lockedWriter) Write(p []byte) (int, error) {
	l.mu.Lock()
	l.n += bytes.Count(p, []byte("\n"))
	l.buf.Write(p)
	l.mu.Unlock()
	runtime.Gosched() // let another request's record in between two writes of this one, if the tracer makes two
	return len(p), nil
}

// intact: the lines of the output that are one complete JSON record each
func (l *lockedWriter) intact() int {
	l.mu.Lock()
	defer l.mu.Unlock()
	n := 0
	for _, line := range bytes.Split(l.buf.Bytes(), []byte("\n")) {
		var rec map[string]any
		if len(line) > 0 && json.Unmarshal(line, &rec) == nil {
			n++
		}
	}
	return n
}

// stressStackAll: trace -> connlimit -> ratelimit -> cbreaker -> rebalancer -> buffer -> handler under concurrent requests.
func stressStackAll(cfg M, tr *Trace, seed int64) {
	freeze()
	tr.Emit(M{"e": "Reset", "scn": "stackall", "cfg": M{}})
	var served atomic.Int64
	var badEcho atomic.Int64
	h := http.HandlerFunc(func(w http.ResponseWriter, req *http.Request) {
		served.Add(1)
		b, _ := io.ReadAll(req.Body)
		w.Header().Set("X-Echo", req.Header.Get("X-Id"))
		if req.Header.Get("X-Id")[0] == '7' {
			w.WriteHeader(502)
		}
		w.Write(b)
	})
	bf, _ := buffer.New(h, buffer.MemRequestBodyBytes(16), buffer.MemResponseBodyBytes(16))
	rr, _ := roundrobin.New(bf)
	rb, _ := roundrobin.NewRebalancer(rr)
	tab := newURLTable(seed)
	rb.UpsertServer(tab.url("a", 0))
	rb.UpsertServer(tab.url("b", 0))
	cb, err := cbreaker.New(rb, "NetworkErrorRatio() > 0.9", cbreaker.CheckPeriod(time.Millisecond))
	if err != nil {
		fatal("cbreaker: %v", err)
	}
	ex, _ := utils.NewExtractor("request.header.X-Src")
	rs := ratelimit.NewRateSet()
	rs.Add(time.Second, 100000, 100000)
	tl, _ := ratelimit.New(cb, ex, rs)
	cl, _ := connlimit.New(tl, ex, 1000)
	lw := &lockedWriter{}
	top, _ := trace.New(cl, lw)
	var n200, nother atomic.Int64
	G, K := numOr(cfg, "goroutines", 8), numOr(cfg, "ops", 150)
	parallel(G, func(i int, r *rand.Rand) {
		for k := 0; k < K; k++ {
			id := strconv.Itoa(r.Intn(10)) + "-" + strconv.Itoa(i) + "-" + strconv.Itoa(k)
			body := bytes.Repeat([]byte(id), 1+r.Intn(8))
			req := httptest.NewRequest(http.MethodPost, "http://front/", bytes.NewReader(body))
			req.Header.Set("X-Id", id)
			req.Header.Set("X-Src", "s"+strconv.Itoa(i%3))
			rec := httptest.NewRecorder()
			top.ServeHTTP(rec, req)
			if rec.Code == 200 || rec.Code == 502 {
				n200.Add(1)
				if rec.Header().Get("X-Echo") != id || !bytes.Equal(rec.Body.Bytes(), body) {
					badEcho.Add(1)
				}
			} else {
				nother.Add(1)
			}
			if k%10 == 0 {
				advance(time.Millisecond)
			}
		}
	}, seed)
	tr.Emit(M{"e": "Totals", "what": "trace records = requests", "expect": G * K, "got": lw.n})
	tr.Emit(M{"e": "Totals", "what": "trace records that arrived in one piece = requests", "expect": G * K, "got": lw.intact()})
	tr.Emit(M{"e": "Totals", "what": "handler invocations = relayed responses", "expect": n200.Load(), "got": served.Load()})
	tr.Emit(M{"e": "Totals", "what": "responses belonging to another request", "expect": 0, "got": badEcho.Load()})
}

func init() {
	stressors["metrics"] = stressMetrics
	stressors["rate"] = stressRate
	stressors["ttl"] = stressTTL
	stressors["rebal"] = stressRebal
	stressors["rebaladmin"] = stressRebalAdmin
	stressors["stackall"] = stressStackAll
}
