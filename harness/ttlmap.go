package main

import (
	"time"

	"github.com/vulcand/oxy/v2/verifhook"
)

// runTTLMap drives the real TTL map: after every Set the live keys are probed (a live key can be looked up
// without side effect) to see which entry, if any, was forgotten.
func runTTLMap(sc Scenario, tr *Trace, seed int64) {
	freeze()
	cap := num(sc.Cfg, "cap")
	m := verifhook.NewTTLMap(cap)
	tr.Emit(M{"e": "Reset", "scn": sc.ID, "cfg": M{"cap": cap}})
	now := 0
	exp := map[string]int{}
	for _, st := range sc.Steps {
		switch str(st, "op") {
		case "adv":
			d := num(st, "d")
			advance(time.Duration(d) * time.Second)
			now += d
			tr.Emit(M{"e": "Adv", "d": d})
		case "set":
			k, v, ttl := str(st, "k"), num(st, "v"), num(st, "ttl")
			live := []string{}
			for key, e := range exp {
				if e > now && key != k {
					if _, ok := m.Get(key); ok {
						live = append(live, key)
					}
				}
			}
			err := m.Set(k, v, ttl)
			missing := []any{}
			for _, key := range live {
				if _, ok := m.Get(key); !ok {
					missing = append(missing, key)
					delete(exp, key)
				}
			}
			if err == nil {
				exp[k] = now + ttl
			}
			tr.Emit(M{"e": "Set", "k": k, "v": v, "ttl": ttl, "err": err != nil, "missing": missing, "len": m.Len()})
		case "get":
			k := str(st, "k")
			v, ok := m.Get(k)
			val := 0
			if ok {
				val = v.(int)
			}
			tr.Emit(M{"e": "Get", "k": k, "found": ok, "val": val})
		default:
			fatal("ttlmap: unknown op %v", st)
		}
	}
}

func init() { runners["ttlmap"] = runTTLMap }
