package main

// rtm: memmetrics.RTMetrics collectors (extension check X04): records, exports, appends and resets on named collectors; after
// every step every collector is read back (total, network errors, per-status counts, three latency quantiles).

import (
	"sort"
	"strconv"
	"time"

	"github.com/vulcand/oxy/v2/memmetrics"
)

func runRTM(sc Scenario, tr *Trace, seed int64) {
	freeze()
	tick := time.Duration(numOr(sc.Cfg, "tick_ms", 1000)) * time.Millisecond
	ms := map[string]*memmetrics.RTMetrics{}
	mk := func() *memmetrics.RTMetrics {
		m, err := memmetrics.NewRTMetrics()
		if err != nil {
			fatal("NewRTMetrics: %v", err)
		}
		return m
	}
	for _, n := range list(sc.Cfg, "names") {
		ms[n.(string)] = mk()
	}
	tr.Emit(M{"e": "Reset", "scn": sc.ID, "cfg": M{"tps": int(time.Second / tick), "names": list(sc.Cfg, "names")}})
	read := func() M {
		out := M{}
		names := make([]string, 0, len(ms))
		for n := range ms {
			names = append(names, n)
		}
		sort.Strings(names)
		for _, n := range names {
			m := ms[n]
			codes := M{}
			for c, v := range m.StatusCodesCounts() {
				codes[strconv.Itoa(c)] = int(v)
			}
			h, err := m.LatencyHistogram()
			q := M{"q50": -1, "q100": -1, "q10": -1}
			if err == nil {
				q = M{"q10": int(h.LatencyAtQuantile(10) / time.Millisecond), "q50": int(h.LatencyAtQuantile(50) / time.Millisecond),
					"q100": int(h.LatencyAtQuantile(100) / time.Millisecond)}
			}
			tot, ne := m.TotalCount(), m.NetworkErrorCount()
			ratio := m.NetworkErrorRatio()
			want := 0.0
			if tot != 0 {
				want = float64(ne) / float64(tot)
			}
			out[n] = M{"total": int(tot), "neterr": int(ne), "codes": codes, "q": q, "ratioOK": ratio == want}
		}
		return out
	}
	now := 0
	for _, st := range sc.Steps {
		ev := M{"e": "Op", "op": str(st, "op"), "t": now}
		switch str(st, "op") {
		case "adv":
			advance(time.Duration(num(st, "d")) * tick)
			now += num(st, "d")
			ev["d"], ev["t"] = num(st, "d"), now
		case "rec":
			ms[str(st, "m")].Record(num(st, "code"), time.Duration(num(st, "lat"))*time.Millisecond)
			ev["m"], ev["code"], ev["lat"] = str(st, "m"), num(st, "code"), num(st, "lat")
		case "app":
			err := ms[str(st, "dst")].Append(ms[str(st, "src")])
			ev["dst"], ev["src"], ev["err"] = str(st, "dst"), str(st, "src"), err != nil
		case "exp":
			ms[str(st, "dst")] = ms[str(st, "src")].Export()
			ev["dst"], ev["src"] = str(st, "dst"), str(st, "src")
		case "rst":
			ms[str(st, "m")].Reset()
			ev["m"] = str(st, "m")
		default:
			fatal("rtm: unknown op %v", st)
		}
		ev["read"] = read()
		tr.Emit(ev)
	}
}

func init() { runners["rtm"] = runRTM }
