package main

import (
	"errors"
	"fmt"
	"net/http"
	"net/http/httptest"
	"sort"
	"strconv"
	"time"

	"github.com/vulcand/oxy/v2/ratelimit"
	"github.com/vulcand/oxy/v2/utils"
)

type rateCfg struct {
	tick  time.Duration
	tps   int
	rates []M // p (ticks), a, b
	cap   int
	level string
	extr  string
	// rates that a per-request rate extractor answers for some sources (the ExtractRates option); others get the defaults
	srcRates map[string][]M
}

func parseRateCfg(c M) rateCfg {
	rc := rateCfg{tick: time.Duration(numOr(c, "tick_ms", 100)) * time.Millisecond, cap: numOr(c, "cap", 65536),
		level: strOr(c, "level", "http"), extr: strOr(c, "extract", "custom")}
	if us := numOr(c, "tick_us", 0); us > 0 { // sub-millisecond ticks for rates of thousands of tokens per second
		rc.tick = time.Duration(us) * time.Microsecond
	}
	if time.Second%rc.tick != 0 {
		fatal("tick must divide one second")
	}
	rc.tps = int(time.Second / rc.tick)
	for _, r := range list(c, "rates") {
		rc.rates = append(rc.rates, r.(M))
	}
	if sr, ok := c["srcrates"].(M); ok {
		rc.srcRates = map[string][]M{}
		for src, l := range sr {
			for _, r := range l.([]any) {
				rc.srcRates[src] = append(rc.srcRates[src], r.(M))
			}
		}
	}
	return rc
}

func (rc rateCfg) rateSet() *ratelimit.RateSet { return rc.rateSetOf(rc.rates) }

// ttlSec is how long (whole seconds) a source's state is remembered after its last request: ten times the longest period of
// the rates that apply to it, plus one second.
func (rc rateCfg) ttlSec(src string) int {
	rates := rc.rates
	if r, ok := rc.srcRates[src]; ok {
		rates = r
	}
	var maxP time.Duration
	for _, r := range rates {
		if p := time.Duration(num(r, "p")) * rc.tick; p > maxP {
			maxP = p
		}
	}
	return int(maxP/time.Second)*10 + 1
}

func (rc rateCfg) rateSetOf(rates []M) *ratelimit.RateSet {
	rs := ratelimit.NewRateSet()
	for _, r := range rates {
		if err := rs.Add(time.Duration(num(r, "p"))*rc.tick, int64(num(r, "a")), int64(num(r, "b"))); err != nil {
			fatal("rateset: %v", err)
		}
	}
	return rs
}

// flat step of a concretised timeline
type rstep struct {
	adv     int           // ticks (if > 0 this is an advance)
	sub     time.Duration // silent sub-tick advance (only after an advertised delay that is not a whole number of ticks)
	less    time.Duration // the real advance of this step is shorter by this much (realigns the clock after sub)
	src     string
	n       int
	isretry bool
	isidle  bool
	flood   bool
}

type rout struct {
	out     string
	exact   time.Duration // advertised delay as returned
	delay   int
	status  int
	invoked int
	before  []int64
	after   []int64
	mapLen  int
}

// rateSubject wraps either a TokenLimiter (http) or a bare TokenBucketSet (set).
type rateSubject struct {
	rc         rateCfg
	tl         *ratelimit.TokenLimiter
	set        *ratelimit.TokenBucketSet
	invoked    int
	fracDelays int
}

func newRateSubject(rc rateCfg) *rateSubject {
	s := &rateSubject{rc: rc}
	if rc.level == "set" {
		s.set = ratelimit.NewTokenBucketSet(rc.rateSet())
		return s
	}
	var ex utils.SourceExtractor
	switch rc.extr {
	case "ip":
		e, err := utils.NewExtractor("client.ip")
		if err != nil {
			fatal("extractor: %v", err)
		}
		ex = e
	case "header":
		e, err := utils.NewExtractor("request.header.X-Src")
		if err != nil {
			fatal("extractor: %v", err)
		}
		ex = e
	default:
		ex = utils.ExtractorFunc(func(req *http.Request) (string, int64, error) {
			n, _ := strconv.Atoi(req.Header.Get("X-Amount"))
			return req.Header.Get("X-Src"), int64(n), nil
		})
	}
	h := http.HandlerFunc(func(w http.ResponseWriter, _ *http.Request) { s.invoked++; w.WriteHeader(200) })
	opts := []ratelimit.TokenLimiterOption{ratelimit.Capacity(rc.cap)}
	if len(rc.srcRates) > 0 {
		opts = append(opts, ratelimit.ExtractRates(ratelimit.RateExtractorFunc(func(req *http.Request) (*ratelimit.RateSet, error) {
			if r, ok := rc.srcRates[req.Header.Get("X-Src")]; ok {
				return rc.rateSetOf(r), nil
			}
			return nil, errors.New("no special rates for this source") // the limiter falls back to its default rates
		})))
	}
	tl, err := ratelimit.New(h, ex, rc.rateSet(), opts...)
	if err != nil {
		fatal("ratelimit.New: %v", err)
	}
	s.tl = tl
	return s
}

func (s *rateSubject) tokens() []int64 {
	m := s.set.VerifTokens()
	ps := make([]int64, 0, len(m))
	for p := range m {
		ps = append(ps, p)
	}
	// rates are listed in the scenario in increasing period order
	sort.Slice(ps, func(i, j int) bool { return ps[i] < ps[j] })
	out := make([]int64, len(ps))
	for i, p := range ps {
		out[i] = m[p]
	}
	return out
}

func (s *rateSubject) toTicks(d time.Duration) int {
	if d%s.rc.tick != 0 {
		// generated rates keep period/average whole, so the model never produces such a delay: report it rounded up (waiting
		// for the rounded delay is waiting at least as long as advertised) and let the trace specification judge it
		s.fracDelays++
		if d > 0 {
			return int(d/s.rc.tick) + 1
		}
	}
	return int(d / s.rc.tick)
}

func (s *rateSubject) request(src string, n int) rout {
	if s.set != nil {
		before := s.tokens()
		d, err := s.set.Consume(int64(n))
		o := rout{before: before, after: s.tokens(), delay: -1}
		switch {
		case err != nil:
			o.out = "error"
		case d > 0:
			o.out, o.delay, o.exact = "limit", s.toTicks(d), d
		default:
			o.out, o.delay = "ok", 0
		}
		return o
	}
	req := httptest.NewRequest(http.MethodGet, "http://front.example.com/", nil)
	req.Header.Set("X-Src", src)
	req.Header.Set("X-Amount", strconv.Itoa(n))
	req.RemoteAddr = srcAddr(src)
	rec := httptest.NewRecorder()
	s.invoked = 0
	s.tl.ServeHTTP(rec, req)
	o := rout{status: rec.Code, invoked: s.invoked, delay: -1}
	switch {
	case rec.Code == 200 && s.invoked == 1:
		o.out, o.delay = "ok", 0
	case rec.Code == http.StatusTooManyRequests:
		o.out = "limit"
		if v := rec.Header().Get("X-Retry-In"); v != "" {
			d, err := time.ParseDuration(v)
			if err != nil {
				fatal("X-Retry-In %q: %v", v, err)
			}
			o.delay, o.exact = s.toTicks(d), d
		}
	default:
		o.out = "error"
		if rec.Header().Get("X-Retry-In") != "" {
			o.delay = 0
		}
	}
	return o
}

// replayFlat runs a concretised timeline on a fresh subject; keep decides which requests are sent;
// forget lists the timeline positions at which the limiter forgets everything (the source was evicted).
func replayFlat(rc rateCfg, flat []rstep, keep func(i int, st rstep) bool, forget map[int]bool) map[int]rout {
	freeze()
	s := newRateSubject(rc)
	res := map[int]rout{}
	for i, st := range flat {
		if forget[i] {
			s = newRateSubject(rc)
		}
		if st.sub > 0 {
			advance(st.sub)
			continue
		}
		if st.adv > 0 {
			advance(time.Duration(st.adv)*rc.tick - st.less)
			continue
		}
		if st.src == "" || !keep(i, st) {
			continue
		}
		res[i] = s.request(st.src, st.n)
	}
	return res
}

// evictions applies the property's rule to the timeline: when a source that is not tracked arrives and the limiter
// already tracks `cap` sources, the tracked source nearest to expiry (= least recently seen, in whole seconds) is
// forgotten. Returns for every source the positions at which it is forgotten, and the position of the first tie
// (several candidates equally near to expiry: the property does not say which one), or -1.
func evictions(rc rateCfg, flat []rstep) (map[string]map[int]bool, int) {
	last := map[string]int{} // source -> second at which its entry expires (last request + lifetime of its rates)
	out := map[string]map[int]bool{}
	now, tie := 0, -1
	for i, st := range flat {
		if st.adv > 0 {
			now += st.adv
			continue
		}
		if st.src == "" {
			continue
		}
		sec := now/rc.tps + rc.ttlSec(st.src) // the second at which this request's entry expires
		if _, ok := last[st.src]; !ok && len(last) >= rc.cap {
			victim, min, n := "", 1<<62, 0
			for k, v := range last {
				if v < min {
					victim, min, n = k, v, 1
				} else if v == min {
					n++
				}
			}
			if n > 1 && tie < 0 {
				tie = i
			}
			delete(last, victim)
			if out[victim] == nil {
				out[victim] = map[int]bool{}
			}
			out[victim][i] = true
		}
		last[st.src] = sec
	}
	return out, tie
}

func runRate(sc Scenario, tr *Trace, seed int64) {
	rc := parseRateCfg(sc.Cfg)
	freeze()
	s := newRateSubject(rc)
	// pass A: execute the scenario, concretising retry / idle probes into a flat timeline
	var flat []rstep
	var outs []rout
	lastRej := map[string]rout{}
	lastRejN := map[string]int{}
	do := func(st rstep) {
		if st.sub > 0 {
			advance(st.sub)
			flat = append(flat, st)
			outs = append(outs, rout{})
			return
		}
		if st.adv > 0 {
			advance(time.Duration(st.adv)*rc.tick - st.less)
			flat = append(flat, st)
			outs = append(outs, rout{})
			return
		}
		if rc.level == "http" && rc.extr != "custom" {
			st.n = 1 // the built-in extractors count every request as one unit
		}
		o := s.request(st.src, st.n)
		flat = append(flat, st)
		outs = append(outs, o)
		if o.out == "limit" {
			lastRej[st.src], lastRejN[st.src] = o, st.n
		} else {
			delete(lastRej, st.src)
		}
	}
	for _, st := range sc.Steps {
		switch str(st, "op") {
		case "adv":
			if d := num(st, "d"); d > 0 {
				do(rstep{adv: d})
			}
		case "req":
			do(rstep{src: str(st, "src"), n: numOr(st, "n", 1), flood: boolOr(st, "flood", false)})
		case "retry": // wait exactly the advertised delay of the source's last rejection, then repeat it
			src := str(st, "src")
			if o, ok := lastRej[src]; ok && o.delay > 0 {
				n := lastRejN[src]
				if o.exact > 0 && o.exact%rc.tick != 0 {
					// wait exactly as long as advertised: whole ticks, then the sub-tick rest silently (the model's clock
					// shows the whole ticks: refill is a step function of whole ticks for generated rates), retry, realign
					rest := o.exact % rc.tick
					if o.delay > 1 {
						do(rstep{adv: o.delay - 1})
					}
					do(rstep{sub: rest})
					do(rstep{src: src, n: n, isretry: true})
					do(rstep{adv: 1, less: rest})
				} else {
					do(rstep{adv: o.delay})
					do(rstep{src: src, n: n, isretry: true})
				}
			}
		case "idlex": // stay idle for EXACTLY burst x (period / average) of the slowest-filling rate (not a whole number of ticks
			// when the average does not divide the period), then ask for the smallest burst
			src := str(st, "src")
			var maxD time.Duration
			minBurst := 1 << 30
			for _, r := range rc.rates {
				d := time.Duration(int64(num(r, "b")) * int64(time.Duration(num(r, "p"))*rc.tick) / int64(num(r, "a")))
				if d > maxD {
					maxD = d
				}
				if num(r, "b") < minBurst {
					minBurst = num(r, "b")
				}
			}
			whole, rest := int(maxD/rc.tick), maxD%rc.tick
			if whole > 0 {
				do(rstep{adv: whole})
			}
			if rest > 0 {
				do(rstep{sub: rest})
			}
			do(rstep{src: src, n: minBurst, isidle: true})
			if rest > 0 {
				do(rstep{adv: 1, less: rest})
			}
		case "idle": // stay idle for burst*timePerToken of every rate, then ask for the smallest burst
			src := str(st, "src")
			maxIdle, minBurst := 0, 1<<30
			for _, r := range rc.rates {
				if v := num(r, "b") * (num(r, "p") / num(r, "a")); v > maxIdle {
					maxIdle = v
				}
				if num(r, "b") < minBurst {
					minBurst = num(r, "b")
				}
			}
			do(rstep{adv: maxIdle})
			do(rstep{src: src, n: minBurst, isidle: true})
		default:
			fatal("rate: unknown op %v", st)
		}
	}
	// pass B: every source alone (C14);  pass C: the same history without the rejected flood requests (C13)
	solo := map[int]rout{}
	if boolOr(sc.Cfg, "solo", false) && rc.level == "http" {
		srcs := map[string]bool{}
		for _, st := range flat {
			if st.src != "" {
				srcs[st.src] = true
			}
		}
		forget, tie := map[string]map[int]bool{}, -1
		if boolOr(sc.Cfg, "overcap", false) {
			forget, tie = evictions(rc, flat)
		}
		for src := range srcs {
			for i, o := range replayFlat(rc, flat, func(_ int, st rstep) bool { return st.src == src }, forget[src]) {
				if tie < 0 || i < tie {
					solo[i] = o
				}
			}
		}
	}
	nofl := map[int]rout{}
	if boolOr(sc.Cfg, "nofl", false) {
		nofl = replayFlat(rc, flat, func(i int, st rstep) bool { return !(st.flood && outs[i].out != "ok") }, nil)
	}
	cfg := M{"tps": rc.tps, "cap": rc.cap, "level": rc.level, "qualified": boolOr(sc.Cfg, "qualified", true),
		"approx": boolOr(sc.Cfg, "approx", false)}
	var rates []any
	contractRates := rc.rates
	if cs := strOr(sc.Cfg, "contractsrc", ""); cs != "" { // every request comes from this source: the rates that apply are ITS rates
		if r, ok := rc.srcRates[cs]; ok {
			contractRates = r
		}
	}
	for _, r := range contractRates {
		rates = append(rates, M{"p": num(r, "p"), "a": num(r, "a"), "b": num(r, "b")})
	}
	cfg["rates"] = rates
	tr.Emit(M{"e": "Reset", "scn": sc.ID, "cfg": cfg})
	now := 0
	for i, st := range flat {
		if st.adv > 0 {
			now += st.adv
			tr.Emit(M{"e": "Adv", "d": st.adv, "t": now})
			continue
		}
		if st.sub > 0 {
			continue
		}
		o := outs[i]
		ev := M{"e": "Req", "src": st.src, "n": st.n, "t": now, "out": o.out, "delay": o.delay, "status": o.status,
			"isretry": st.isretry, "isidle": st.isidle, "flood": st.flood, "solo": "", "nofl": "",
			"before": i64s(o.before), "after": i64s(o.after)}
		if so, ok := solo[i]; ok {
			ev["solo"] = so.out
		}
		if no, ok := nofl[i]; ok {
			ev["nofl"] = no.out
		}
		tr.Emit(ev)
	}
	_ = fmt.Sprint
}

func i64s(v []int64) []any {
	out := make([]any, len(v))
	for i, x := range v {
		out[i] = x
	}
	return out
}

func init() { runners["rate"] = runRate }
