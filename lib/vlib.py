"""Shared machinery of the oxy verification checks.

Pipeline of every check (see DESIGN.md section 3):
  1. build the harness from /repo's working tree (-tags verif)
  2. exhaustive TLC runs (implementation-shaped spec against the contract; mutant
     configurations that must produce a counterexample)
  3. scenario generation (TLC behaviours + seeded generators)
  4. execution of the scenarios on the real code -> ndjson trace
  5. TLC trace validation (contract layer -> violations, impl layer -> drift)
  6. verdict, known-finding matching, evidence file

Exit codes: 0 property held on everything explored, 1 violation (a line
"VIOLATION property=<id> replay=<path>" is printed), 2 infrastructure error
(never a verdict).
"""
import hashlib
import json
import os
import re
import shutil
import subprocess
import sys
import time

ROOT = os.path.dirname(os.path.dirname(os.path.abspath(__file__)))
REPO = os.environ.get("VERIF_REPO") or "/repo"
SPEC = os.path.join(ROOT, "spec")
HARNESS = os.path.join(ROOT, "harness")
TLA_CP = "/opt/veriftools/tla/tla2tools.jar:/opt/veriftools/tla/CommunityModules-deps.jar"
GOENV = {"GOFLAGS": "-mod=mod", "GOPROXY": "off", "GOSUMDB": "off", "GOTOOLCHAIN": "local"}


class InfraError(Exception):
    """Anything that is not a verdict about the real code."""


def log(msg):
    sys.stderr.write("[check] %s\n" % msg)
    sys.stderr.flush()


class Ctx:
    def __init__(self, pid, tier, seed):
        self.pid = pid
        self.tier = tier
        self.seed = seed
        self.t0 = time.time()
        self.work = os.path.join(ROOT, ".work", "%s-%d" % (pid, os.getpid()))
        shutil.rmtree(self.work, ignore_errors=True)
        os.makedirs(self.work)
        self.tmp = os.path.join(self.work, "tmp")
        os.makedirs(self.tmp)
        self.replays = os.path.join(ROOT, "replays", pid)
        os.makedirs(self.replays, exist_ok=True)
        self.harness_bin = {}
        # evidence accumulators
        self.states = 0
        self.transitions = 0
        self.traces = 0
        self.events = 0
        self.scenarios = 0
        self.mc_runs = []
        self.samples = []
        self.violations = []     # dicts: property, clause, signature, scenario, replay
        self.known = []
        self.drift = []
        self.hangs = []
        self.notes = []
        self.distinct = set()
        self.extra = {}

    def quick(self):
        return self.tier == "quick"

    def cleanup(self):
        shutil.rmtree(self.work, ignore_errors=True)
        try:
            os.rmdir(os.path.join(ROOT, ".work"))
        except OSError:
            pass


# --------------------------------------------------------------------------- build

def build_harness(ctx, race=False):
    key = "race" if race else "plain"
    if key in ctx.harness_bin:
        return ctx.harness_bin[key]
    out = os.path.join(ctx.work, "oxyharness-" + key)
    env = dict(os.environ)
    env.update(GOENV)
    # go.sum: the repository's sums (harness deps are a subset plus rapid, which is in the module cache)
    src = os.path.join(ctx.work, "hsrc")
    if not os.path.isdir(src):
        shutil.copytree(HARNESS, src, ignore=shutil.ignore_patterns("go.sum"))
        gomod = open(os.path.join(src, "go.mod")).read().replace("=> /repo", "=> " + REPO)
        open(os.path.join(src, "go.mod"), "w").write(gomod)
        shutil.copy(os.path.join(REPO, "go.sum"), os.path.join(src, "go.sum"))
    cmd = ["go", "build", "-tags", "verif"] + (["-race"] if race else []) + ["-o", out, "."]
    t = time.time()
    p = subprocess.run(cmd, cwd=src, env=env, stdout=subprocess.PIPE, stderr=subprocess.STDOUT, text=True)
    if p.returncode != 0:
        raise InfraError("harness build failed:\n" + p.stdout[-4000:])
    log("built harness (%s) in %.1fs" % (key, time.time() - t))
    ctx.harness_bin[key] = out
    return out


def run_harness(ctx, args, race=False, timeout=1200, env_extra=None, allow_fail=False):
    binp = build_harness(ctx, race)
    env = dict(os.environ)
    env["TMPDIR"] = ctx.tmp
    if env_extra:
        env.update(env_extra)
    try:
        p = subprocess.run([binp] + args, cwd=ctx.work, env=env, stdout=subprocess.PIPE,
                           stderr=subprocess.PIPE, text=True, timeout=timeout)
    except subprocess.TimeoutExpired:
        raise InfraError("harness timed out: %s" % " ".join(args))
    if p.returncode != 0 and not allow_fail:
        raise InfraError("harness failed (%d): %s\n%s" % (p.returncode, " ".join(args), (p.stderr or p.stdout)[-3000:]))
    return p


# --------------------------------------------------------------------------- TLC

def make_cfg(spec="Spec", constants=None, invariants=(), properties=(), view=None, constraint=None,
             action_constraint=None, postcondition=None, init=None, next_=None, symmetry=None):
    lines = []
    defs = []
    if init:
        lines += ["INIT " + init, "NEXT " + next_]
    else:
        lines.append("SPECIFICATION " + spec)
    if constants:
        lines.append("CONSTANTS")
        for k, v in constants.items():
            if isinstance(v, Def):
                defs.append((k, str(v)))
                lines.append("  %s <- def_%s" % (k, k))
            else:
                lines.append("  %s = %s" % (k, tla_value(v)))
    if invariants:
        lines.append("INVARIANTS " + " ".join(invariants))
    if properties:
        lines.append("PROPERTIES " + " ".join(properties))
    if view:
        lines.append("VIEW " + view)
    if constraint:
        lines.append("CONSTRAINT " + constraint)
    if action_constraint:
        lines.append("ACTION_CONSTRAINT " + action_constraint)
    if postcondition:
        lines.append("POSTCONDITION " + postcondition)
    if symmetry:
        lines.append("SYMMETRY " + symmetry)
    lines.append("CHECK_DEADLOCK FALSE")
    out = CfgText("\n".join(lines) + "\n")
    out.defs = tuple(defs)
    return out


class Raw(str):
    """A TLA+ expression passed through verbatim."""


class Def(str):
    """A TLA+ expression too rich for a cfg file: it is defined in a generated wrapper module
    and substituted with  CONSTANT C <- def_C."""


class CfgText(str):
    defs = ()


def tla_value(v):
    if isinstance(v, Raw):
        return str(v)
    if isinstance(v, bool):
        return "TRUE" if v else "FALSE"
    if isinstance(v, int):
        return str(v)
    if isinstance(v, str):
        return json.dumps(v)
    if isinstance(v, (set, frozenset)):
        return "{" + ", ".join(tla_value(x) for x in sorted(v, key=lambda x: (str(type(x)), x))) + "}"
    if isinstance(v, (list, tuple)):
        return "<<" + ", ".join(tla_value(x) for x in v) + ">>"
    raise ValueError(v)


class TlcResult:
    def __init__(self, out, rc, wall):
        self.out = out
        self.rc = rc
        self.wall = wall
        self.generated = 0
        self.distinct = 0
        self.depth = 0
        self.violated = []
        self.error = None
        self.prints = []
        self.parse()

    def parse(self):
        for m in re.finditer(r"(\d+) states generated, (\d+) distinct states found", self.out):
            self.generated, self.distinct = int(m.group(1)), int(m.group(2))
        m = re.search(r"The number of states generated: (\d+)", self.out)
        if m and not self.generated:
            self.generated = int(m.group(1))
            self.distinct = self.generated
        m = re.search(r"depth of the complete state graph search is (\d+)", self.out)
        if m:
            self.depth = int(m.group(1))
        for m in re.finditer(r"Invariant (\S+) is violated", self.out):
            self.violated.append(m.group(1))
        for m in re.finditer(r"Action property (\S+) is violated|Temporal properties were violated|property (\S+) is violated", self.out):
            self.violated.append(m.group(1) or m.group(2) or "temporal")
        if "Error:" in self.out and not self.violated:
            i = self.out.index("Error:")
            self.error = self.out[i:i + 1500]
        for line in self.out.splitlines():
            if line.startswith('"') and line.endswith('"') and len(line) > 2:
                try:
                    self.prints.append(json.loads(json.loads(line)))
                except Exception:
                    pass

    @property
    def clean(self):
        return (not self.violated) and self.error is None and \
            ("No error has been found" in self.out or "Finished in" in self.out)


def tlc(ctx, module, cfg_text, name=None, workers=16, heap_gb=8, timeout=900, simulate=None, depth=None,
        seed=None, files=None, deque=False, extra=None):
    """Run TLC on spec/<module>.tla in a private directory. files: {relative name: path} copied in."""
    name = name or module
    d = os.path.join(ctx.work, "tlc-" + re.sub(r"[^A-Za-z0-9_.-]", "_", name))
    shutil.rmtree(d, ignore_errors=True)
    os.makedirs(d)
    for f in os.listdir(SPEC):
        if f.endswith(".tla"):
            shutil.copy(os.path.join(SPEC, f), d)
    for rel, src in (files or {}).items():
        shutil.copy(src, os.path.join(d, rel))
    if getattr(cfg_text, "defs", ()):
        wrapper = module + "_run"
        body = "---- MODULE %s ----\nEXTENDS %s\n" % (wrapper, module)
        for k, expr in cfg_text.defs:
            body += "def_%s == %s\n" % (k, expr)
        body += "====\n"
        open(os.path.join(d, wrapper + ".tla"), "w").write(body)
        module = wrapper
    open(os.path.join(d, module + ".cfg"), "w").write(cfg_text)
    cmd = ["java", "-Xmx%dg" % heap_gb, "-Xss64m", "-XX:+UseParallelGC"]
    if deque:
        cmd.append("-Dtlc2.tool.queue.IStateQueue=StateDeque")
    cmd += ["-cp", TLA_CP, "tlc2.TLC", "-workers", str(workers), "-metadir", os.path.join(d, "meta"),
            "-config", module + ".cfg"]
    if simulate is not None:
        cmd += ["-simulate", "num=%d" % simulate]
        if depth:
            cmd += ["-depth", str(depth)]
    if seed is not None:
        cmd += ["-seed", str(seed)]
    if extra:
        cmd += extra
    cmd.append(module + ".tla")
    t = time.time()
    try:
        p = subprocess.run(cmd, cwd=d, stdout=subprocess.PIPE, stderr=subprocess.STDOUT, text=True, timeout=timeout)
    except subprocess.TimeoutExpired:
        subprocess.run(["pkill", "-f", d], check=False)
        raise InfraError("TLC timed out after %ds: %s" % (timeout, name))
    res = TlcResult(p.stdout, p.returncode, time.time() - t)
    res.dir = d
    if "java.lang.OutOfMemoryError" in p.stdout or "StackOverflowError" in p.stdout:
        raise InfraError("TLC resource failure in %s:\n%s" % (name, p.stdout[-2000:]))
    return res


def mc(ctx, module, cfg_text, name, expect="ok", **kw):
    """Exhaustive run. expect: 'ok' or the name of an invariant/property that must be violated
    (mutant / as-is configurations that demonstrate the model is not vacuous)."""
    r = tlc(ctx, module, cfg_text, name=name, **kw)
    rec = {"name": name, "generated": r.generated, "distinct": r.distinct, "depth": r.depth,
           "wall_s": round(r.wall, 1), "expect": expect, "violated": r.violated}
    ctx.mc_runs.append(rec)
    if r.error:
        raise InfraError("TLC error in %s:\n%s" % (name, r.error))
    if expect == "ok":
        ctx.states += r.distinct
        ctx.transitions += r.generated
        if r.violated:
            rec["result"] = "MODEL-COUNTEREXAMPLE"
            log("model counterexample in %s: %s" % (name, r.violated))
        else:
            rec["result"] = "holds"
    else:
        exp = expect if isinstance(expect, (list, tuple)) else [expect]
        if not any(v in exp for v in r.violated):
            raise InfraError("negative configuration %s did not produce the expected counterexample (%s), got %s"
                             % (name, exp, r.violated))
        rec["result"] = "counterexample as expected"
    log("MC %-28s %9d generated %8d distinct depth %3d %6.1fs -> %s" %
        (name, r.generated, r.distinct, r.depth, r.wall, rec["result"]))
    return r


def apalache(ctx, module, name, cinit, init, inv, length, expect_ok=True, timeout=600, cinit_def=None):
    """Apalache bounded check used for inductive-invariant arguments (Init => Inv at length 0, Inv /\\ Next => Inv' at length 1)."""
    d = os.path.join(ctx.work, "apa-" + name)
    shutil.rmtree(d, ignore_errors=True)
    os.makedirs(d)
    shutil.copy(os.path.join(SPEC, module + ".tla"), d)
    if cinit_def:     # constants too rich for the command line: a wrapper module defines the constant initialiser
        wrapper = module + "_cfg"
        open(os.path.join(d, wrapper + ".tla"), "w").write(
            "---- MODULE %s ----\nEXTENDS %s\n%s == %s\n====\n" % (wrapper, module, cinit, cinit_def))
        module = wrapper
    cmd = ["apalache-mc", "check", "--cinit=" + cinit, "--init=" + init, "--inv=" + inv, "--length=%d" % length,
           "--out-dir=" + os.path.join(d, "out"), module + ".tla"]
    t = time.time()
    try:
        p = subprocess.run(cmd, cwd=d, stdout=subprocess.PIPE, stderr=subprocess.STDOUT, text=True, timeout=timeout)
    except subprocess.TimeoutExpired:
        raise InfraError("apalache timed out: " + name)
    ok = "EXITCODE: OK" in p.stdout
    viol = "The outcome is: Error" in p.stdout or "EXITCODE: ERROR (12)" in p.stdout
    if not ok and not viol:
        raise InfraError("apalache failed in %s:\n%s" % (name, p.stdout[-1500:]))
    if ok != expect_ok:
        raise InfraError("apalache %s: expected %s, got %s" % (name, "no error" if expect_ok else "a counterexample", "no error" if ok else "a counterexample"))
    ctx.mc_runs.append({"name": name, "tool": "apalache", "init": init, "inv": inv, "length": length,
                        "result": "no error" if ok else "counterexample as expected", "wall_s": round(time.time() - t, 1)})
    log("APA %-27s %s in %.1fs" % (name, "no error" if ok else "counterexample as expected", time.time() - t))


def gen_tlc(ctx, module, cfg_text, name, num=None, depth=None, seed=None, timeout=600, workers=1):
    """Run a generator spec; returns the list of printed behaviours (parsed JSON), de-duplicated."""
    r = tlc(ctx, module, cfg_text, name=name, workers=workers, heap_gb=4, timeout=timeout,
            simulate=num, depth=depth, seed=seed)
    if r.error or r.violated:
        raise InfraError("generator %s failed: %s %s" % (name, r.violated, r.error))
    seen, out = set(), []
    for p in r.prints:
        k = json.dumps(p, sort_keys=True)
        if k not in seen:
            seen.add(k)
            out.append(p)
    log("GEN %-27s %d behaviours (%d distinct) %.1fs" % (name, len(r.prints), len(out), r.wall))
    return out


# --------------------------------------------------------------------------- scenarios & traces

def write_scenarios(path, scenarios):
    with open(path, "w") as f:
        for s in scenarios:
            f.write(json.dumps(s, sort_keys=True) + "\n")


def run_scenarios(ctx, component, scenarios, tag, race=False, timeout=1800, env_extra=None, hang_s=30):
    """Execute scenarios on the real code; returns the trace path. A scenario in which the code
    under test stops making progress is recorded in ctx.hangs and skipped."""
    tp = os.path.join(ctx.work, "trace-%s.ndjson" % tag)
    open(tp, "w").close()
    remaining = list(scenarios)
    t = time.time()
    part = 0
    while remaining:
        sp = os.path.join(ctx.work, "scen-%s-%d.ndjson" % (tag, part))
        tpp = os.path.join(ctx.work, "trace-%s-%d.ndjson" % (tag, part))
        write_scenarios(sp, remaining)
        p = run_harness(ctx, ["run", component, "-scenarios", sp, "-trace", tpp, "-seed", str(ctx.seed),
                              "-hang", str(hang_s)], race=race, timeout=timeout, env_extra=env_extra, allow_fail=True)
        if p.returncode == 0 and "HARNESS-OK" in p.stdout:
            with open(tp, "a") as dst:
                dst.write(open(tpp).read())
            break
        m = re.search(r"HARNESS-HANG scn=(\S+)", p.stdout)
        if p.returncode == 3 and m:
            hung = m.group(1)
            ids = [s["id"] for s in remaining]
            if hung not in ids:
                raise InfraError("hang reported for unknown scenario " + hung)
            i = ids.index(hung)
            h = dict(remaining[i])
            h["component"] = component
            ctx.hangs.append(h)
            log("HANG in scenario %s (no progress for %ds)" % (hung, hang_s))
            trs = scenario_traces(tpp)
            with open(tp, "a") as dst:
                for s in remaining[:i]:
                    for ev in trs.get(s["id"], []):
                        dst.write(json.dumps(ev) + "\n")
            remaining = remaining[i + 1:]
            part += 1
            if len(ctx.hangs) >= 3:
                log("too many hangs; not executing the remaining %d scenarios" % len(remaining))
                break
            continue
        raise InfraError("harness failed (%d): %s\n%s" % (p.returncode, p.stdout[-1500:], p.stderr[-2500:]))
    log("RUN %-27s %d scenarios on real code %.1fs" % (tag, len(scenarios), time.time() - t))
    ctx.scenarios += len(scenarios)
    return tp


def validate_trace(ctx, module, trace_path, tag, cfg_text=None, timeout=1800, heap_gb=6, constants=None):
    """TLC trace validation. Returns result dict {bad:[], drift:[], events:int}."""
    d = os.path.join(ctx.work, "tv-" + tag)
    tmp_trace = os.path.join(ctx.work, "tv-%s.ndjson" % tag)
    n = 0
    with open(trace_path) as src, open(tmp_trace, "w") as dst:
        for line in src:
            if line.strip():
                dst.write(line)
                n += 1
        dst.write(json.dumps({"e": "End"}) + "\n")
    cfg_text = cfg_text or make_cfg(constants=constants)
    r = tlc(ctx, module, cfg_text, name="tv-" + tag, workers=1, heap_gb=heap_gb, timeout=timeout,
            files={"trace.ndjson": tmp_trace})
    resf = os.path.join(r.dir, "result.json")
    if r.error or r.violated or not os.path.exists(resf):
        raise InfraError("trace validation %s did not consume the trace (stopped at depth %d of %d lines)\n%s"
                         % (tag, r.depth, n + 1, (r.error or r.out[-2500:])))
    res = json.load(open(resf))
    if res.get("lines") != n + 1:
        raise InfraError("trace validation %s consumed %s of %d lines" % (tag, res.get("lines"), n + 1))
    ctx.events += n
    log("TV  %-27s %d events validated in %.1fs: %d contract reports, %d drift reports" %
        (tag, n, r.wall, len(res.get("bad", [])), len(res.get("drift", []))))
    return res


def scenario_traces(trace_path):
    """Split a trace file into {scn id: [events]}."""
    out, cur = {}, None
    with open(trace_path) as f:
        for line in f:
            if not line.strip():
                continue
            ev = json.loads(line)
            if ev.get("e") == "Reset":
                cur = ev["scn"]
                out[cur] = []
            if cur is not None:
                out[cur].append(ev)
    return out


# --------------------------------------------------------------------------- verdicts

def load_known():
    p = os.path.join(ROOT, "known_findings.json")
    if not os.path.exists(p):
        return []
    return json.load(open(p)).get("findings", [])


def save_replay(ctx, component, scenario, clause):
    h = hashlib.sha1(json.dumps(scenario, sort_keys=True).encode()).hexdigest()[:10]
    path = os.path.join(ctx.replays, "%s-%s-%s.json" % (component, re.sub(r"[^A-Za-z0-9]", "_", clause), h))
    json.dump({"component": component, "clause": clause, "scenario": scenario, "seed": ctx.seed},
              open(path, "w"), indent=1, sort_keys=True)
    return path


def add_violation(ctx, clause, signature, scenario, component, detail=None):
    """Register a contract violation observed on the real code."""
    ctx.violations.append({"property": ctx.pid, "clause": clause, "signature": signature,
                           "scenario": scenario, "component": component, "detail": detail})


def finish(ctx, level, rule, assumptions, coverage_extra=None, exhaustive=False):
    """Print verdict lines, write evidence, return exit code."""
    for h in ctx.hangs:
        add_violation(ctx, ctx.pid + ".OperationTerminates", "%s.OperationTerminates/%s" % (ctx.pid, h.get("cfg", {}).get("subject", "")),
                      h, h.get("component", "?"), detail="the code under test made no progress for 30 s in scenario %s" % h.get("id"))
    known = [k for k in load_known() if k.get("property") == ctx.pid and k.get("status") == "known"]
    known_sigs = {k["signature"]: k for k in known}
    new, seen_known = {}, {}
    for v in ctx.violations:
        sig = v["signature"]
        if sig in known_sigs:
            seen_known.setdefault(sig, v)
        else:
            new.setdefault(sig, v)
    rc = 0
    for sig, v in sorted(seen_known.items()):
        print("KNOWN-FINDING: property=%s %s (%s)" % (ctx.pid, known_sigs[sig].get("what", ""), sig))
    for sig, v in sorted(new.items()):
        path = save_replay(ctx, v["component"], v["scenario"], v["clause"])
        print("VIOLATION property=%s replay=%s" % (ctx.pid, path))
        print("  clause=%s signature=%s %s" % (v["clause"], sig, v.get("detail") or ""))
        rc = 1
    cov = {
        "states": ctx.states,
        "transitions": ctx.transitions,
        "traces_validated_against_impl": ctx.traces,
        "samples": ctx.samples[:6] or [{"note": "no sample recorded"}],
        "evaluations": max(ctx.scenarios, ctx.extra.get("exchanges", 0), ctx.extra.get("evaluations_override", 0)),
        "distinct_nontrivial": len(ctx.distinct),
        "rule": rule,
        "events_validated": ctx.events,
        "model_checking_runs": ctx.mc_runs,
        "drift_reports": ctx.drift[:20],
        "impl_model_transferable": not ctx.drift,
        "known_findings_seen": sorted(seen_known),
        "new_violation_signatures": sorted(new),
        "exhaustive": exhaustive,
        "notes": ctx.notes,
    }
    cov.update(ctx.extra)
    if coverage_extra:
        cov.update(coverage_extra)
    ev = {
        "property_id": ctx.pid,
        "tier": ctx.tier,
        "seed": ctx.seed,
        "level": level,
        "coverage": cov,
        "assumptions": assumptions,
        "wall_s": round(time.time() - ctx.t0, 1),
        "violations": len(new),
    }
    # the listed properties write /verif/evidence/<id>.json; extension checks (X..: behaviour beyond the list) write evidence-ext/
    evdir = os.environ.get("VERIF_EVIDENCE") or os.path.join(ROOT, "evidence-ext" if ctx.pid.startswith("X") else "evidence")
    os.makedirs(evdir, exist_ok=True)
    tmp = os.path.join(evdir, ".%s.json.%d" % (ctx.pid, os.getpid()))
    json.dump(ev, open(tmp, "w"), indent=1, sort_keys=True)
    os.replace(tmp, os.path.join(evdir, ctx.pid + ".json"))
    if rc == 0:
        print("OK property=%s tier=%s seed=%d states=%d scenarios=%d events=%d wall=%.0fs%s" %
              (ctx.pid, ctx.tier, ctx.seed, ctx.states, ctx.scenarios, ctx.events, time.time() - ctx.t0,
               " drift=%d" % len(ctx.drift) if ctx.drift else ""))
    return rc


def collect(ctx, res, scen_by_id, component, classify, clause_prefixes, trace_by_id=None):
    """Turn trace-validation reports into violations (clauses of this property) and drift."""
    for b in res.get("bad", []):
        clause = b["clause"]
        if not any(clause.startswith(p) for p in clause_prefixes):
            continue
        sc = scen_by_id.get(b["scn"])
        if sc is None:
            raise InfraError("report for unknown scenario %r" % b["scn"])
        evs = (trace_by_id or {}).get(b["scn"])
        sig = classify(clause, sc, b, evs)
        add_violation(ctx, clause, sig, sc, component, detail="scenario=%s line=%s" % (b["scn"], b["line"]))
    for dft in res.get("drift", []):
        ctx.drift.append(dft)


def main_wrapper(pid, run):
    import argparse
    ap = argparse.ArgumentParser()
    ap.add_argument("--tier", default=os.environ.get("VERIF_TIER", "quick"), choices=["quick", "thorough"])
    ap.add_argument("--replay", default=None)
    ap.add_argument("--keep", action="store_true")
    a = ap.parse_args(sys.argv[2:])
    seed = int(os.environ.get("VERIF_SEED", "1") or "1")
    ctx = Ctx(pid, a.tier, seed)
    try:
        rc = run(ctx, a.replay)
    except InfraError as e:
        sys.stderr.write("INFRA-ERROR property=%s: %s\n" % (pid, e))
        rc = 2
    finally:
        if not a.keep:
            ctx.cleanup()
    sys.exit(rc)
